#!/bin/bash
# verify_benign.sh <name> <patch.diff> <props...>: applies a behaviour-preserving patch to a scratch copy of /repo, checks that it
# compiles and that the suite result is unchanged, then runs the given property checks against it: every check must stay silent.
name="$1"; patch="$2"; shift 2
export GOFLAGS=-mod=mod GOPROXY=off
W=/dev/shm/benchk.$name.$$; trap 'rm -rf $W' EXIT
rsync -a --exclude .git /repo/ $W/
(cd $W && patch -p1 -s < "$patch") || { echo "$name: PATCH DOES NOT APPLY"; exit 2; }
(cd $W && go build ./...) || { echo "$name: does not compile"; exit 2; }
fails=$(cd $W && go test -vet=off -count=1 ./... 2>&1 | grep -E "^--- FAIL" | grep -v TestAppendEventsAtomically_FailureLeavesOriginalFile | wc -l)
echo "$name: suite extra failures=$fails"
rc_all=0
for p in "$@"; do
  out=$(VERIF_REPO=$W /verif/check $p --no-evidence 2>&1); rc=$?
  echo "$name: check $p exit=$rc"; echo "$out" | grep VIOLATION | sed 's/^/    /' | head -6
  [ $rc -ne 0 ] && rc_all=1
done
exit $rc_all
