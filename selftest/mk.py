#!/usr/bin/env python3
# mk.py name file old new  -> writes selftest/mutants/<name>.patch (unified diff against /repo)
import sys, difflib, os
name, f, old, new = sys.argv[1:5]
src = open('/repo/'+f).read()
assert src.count(old) >= 1, "pattern not found in "+f
dst = src.replace(old, new, 1)
d = difflib.unified_diff(src.splitlines(True), dst.splitlines(True), 'a/'+f, 'b/'+f)
open('/verif/selftest/mutants/%s.patch' % name, 'w').write(''.join(d))
print(name, 'ok')
