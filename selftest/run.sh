#!/bin/bash
# Must-fail / must-pass corpus: applies each patch to a scratch copy of /repo (outside /repo, /verif, /tmp),
# runs the named checks against the copy and compares the verdict. Usage: selftest/run.sh [name-substring]
ROOT="$(cd "$(dirname "$0")/.." && pwd)"
export GOFLAGS=-mod=mod GOPROXY=off
SCR="${VERIF_SCRATCH:-/dev/shm}/selftest.$$"
trap 'rm -rf "$SCR"' EXIT
fail=0; n=0
while IFS='|' read -r name props expect; do
  [ -z "$name" ] && continue
  case "$name" in \#*) continue;; esac
  if [ -n "$1" ] && [[ "$name" != *"$1"* ]]; then continue; fi
  rm -rf "$SCR"; mkdir -p "$SCR"
  rsync -a --exclude .git /repo/ "$SCR/"
  if ! (cd "$SCR" && patch -p1 -s < "$ROOT/selftest/mutants/$name.patch"); then echo "SELFTEST-ERROR $name: patch does not apply"; fail=1; continue; fi
  if ! (cd "$SCR" && go build ./... 2>/dev/null); then echo "SELFTEST-ERROR $name: does not compile"; fail=1; continue; fi
  for p in $(echo $props | tr ',' ' '); do
    n=$((n+1))
    out=$(VERIF_REPO="$SCR" "$ROOT/check" "$p" --no-evidence 2>&1); rc=$?
    if [ "$expect" = "violation" ] && [ $rc -ne 1 ]; then echo "SELFTEST-MISS $name: $p did not report a violation (exit $rc)"; fail=1
    elif [ "$expect" = "pass" ] && [ $rc -ne 0 ]; then echo "SELFTEST-FALSE-ALARM $name: $p exit $rc"; echo "$out" | grep VIOLATION | head -3; fail=1
    else echo "ok   $name / $p ($expect): $(echo "$out" | grep -c VIOLATION) violation lines"; fi
  done
done < "$ROOT/selftest/corpus.txt"
echo "selftest: $n runs, fail=$fail"
exit $fail
