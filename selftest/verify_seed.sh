#!/bin/bash
# verify_seed.sh <id> <seed dir> <props...>: confirms a seeded change (compiles, suite passes, demo fails with / passes without),
# then runs the given property checks against it. Scratch copies live under /dev/shm and are removed.
id="$1"; dir="$2"; shift 2
export GOFLAGS=-mod=mod GOPROXY=off
W=/dev/shm/seedchk.$id.$$; trap 'rm -rf $W' EXIT
rsync -a --exclude .git /repo/ $W/
run_demo() { # $1 = tree
  rc=0
  if [ -f "$dir/demo_test.go" ]; then
    cp "$dir/demo_test.go" "$1/internal/ergo/zz_seed_demo_test.go"
    names=$(grep -oE '^func (Test[A-Za-z0-9_]+)' "$dir/demo_test.go" | awk '{print $2}' | paste -sd'|')
    (cd $1 && go test -vet=off -count=1 -timeout 120s -run "^($names)\$" ./internal/ergo >/dev/null 2>&1) || rc=1
    rm -f "$1/internal/ergo/zz_seed_demo_test.go"
  elif [ -f "$dir/demo.sh" ]; then
    (cd $1 && go build -o $W.ergo ./cmd/ergo) && (bash "$dir/demo.sh" $W.ergo >/dev/null 2>&1) || rc=1
    rm -f $W.ergo
  fi
  return $rc
}
run_demo $W; without=$?
(cd $W && patch -p1 -s < "$dir/patch.diff") || { echo "$id: PATCH DOES NOT APPLY"; exit 2; }
(cd $W && go build ./...) || { echo "$id: does not compile"; exit 2; }
fails=$(cd $W && go test -vet=off -count=1 ./... 2>&1 | grep -E "^--- FAIL" | grep -v TestAppendEventsAtomically_FailureLeavesOriginalFile | wc -l)
run_demo $W; with=$?
echo "$id: suite extra failures=$fails demo without patch rc=$without with patch rc=$with"
for p in "$@"; do
  out=$(VERIF_REPO=$W /verif/check $p --no-evidence 2>&1); rc=$?
  echo "$id: check $p exit=$rc"; echo "$out" | grep VIOLATION | sed 's/^/    /' | head -5
done
