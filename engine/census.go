package main

import (
	"fmt"
	"sort"

	"golang.org/x/tools/go/ssa"
)

// Structural obligations decided on the SSA call graph (no solver):
//   census/log-path[<caller>#k]: the path handed to a log primitive flows from getEventsPath(...)
//   census/writer-has-contract[<fn>]: every function that calls a log write primitive is under contract

var logPrimitives = map[string]int{"readEvents": 0, "appendEvents": 0, "replaceEventsAtomically": 0, "appendEventsAtomically": 0}
var writePrimitives = map[string]bool{"appendEvents": true, "replaceEventsAtomically": true, "appendEventsAtomically": true}

type censusResult struct {
	Name   string
	OK     bool
	Detail string
}

func (e *Engine) census() []censusResult {
	var out []censusResult
	// callers index
	callers := map[*ssa.Function][]*ssa.Call{}
	for _, fn := range e.funcs {
		for _, b := range fn.Blocks {
			for _, ins := range b.Instrs {
				if c, ok := ins.(*ssa.Call); ok {
					if callee := c.Common().StaticCallee(); callee != nil {
						callers[callee] = append(callers[callee], c)
					}
				}
			}
		}
	}
	var fromGetEventsPath func(v ssa.Value, fn *ssa.Function, depth int) bool
	fromGetEventsPath = func(v ssa.Value, fn *ssa.Function, depth int) bool {
		if depth > 6 {
			return false
		}
		switch x := v.(type) {
		case *ssa.Call:
			if callee := x.Common().StaticCallee(); callee != nil && callee.Name() == "getEventsPath" && callee.Pkg == e.pkg {
				return true
			}
			return false
		case *ssa.Phi:
			for _, ed := range x.Edges {
				if !fromGetEventsPath(ed, fn, depth+1) {
					return false
				}
			}
			return len(x.Edges) > 0
		case *ssa.Parameter:
			// every caller must pass a value with the same provenance
			cs := callers[fn]
			if len(cs) == 0 {
				return false
			}
			idx := -1
			for i, p := range fn.Params {
				if p == x {
					idx = i
				}
			}
			for _, c := range cs {
				if idx < 0 || idx >= len(c.Common().Args) || !fromGetEventsPath(c.Common().Args[idx], c.Parent(), depth+1) {
					return false
				}
			}
			return true
		case *ssa.UnOp:
			// load of a captured variable or local cell: all stores to it must have the provenance
			switch a := x.X.(type) {
			case *ssa.FreeVar:
				parent := fn.Parent()
				if parent == nil {
					return false
				}
				for _, b := range parent.Blocks {
					for _, ins := range b.Instrs {
						if mc, ok := ins.(*ssa.MakeClosure); ok && mc.Fn == ssa.Value(fn) {
							for i, fv := range fn.FreeVars {
								if fv == a && i < len(mc.Bindings) {
									return cellProvenance(mc.Bindings[i], parent, depth+1, fromGetEventsPath)
								}
							}
						}
					}
				}
				return false
			case *ssa.Alloc:
				return cellProvenance(a, fn, depth+1, fromGetEventsPath)
			}
		}
		return false
	}
	names := make([]string, 0, len(e.funcs))
	for n := range e.funcs {
		names = append(names, n)
	}
	sort.Strings(names)
	for _, n := range names {
		fn := e.funcs[n]
		if _, isPrim := logPrimitives[fn.Name()]; isPrim && fn.Parent() == nil {
			continue // primitives pass their own parameter on
		}
		k := 0
		writes := false
		for _, b := range fn.Blocks {
			for _, ins := range b.Instrs {
				c, ok := ins.(*ssa.Call)
				if !ok {
					continue
				}
				callee := c.Common().StaticCallee()
				if callee == nil || callee.Pkg != e.pkg || callee.Parent() != nil {
					continue
				}
				argIdx, isPrim := logPrimitives[callee.Name()]
				if !isPrim {
					continue
				}
				if writePrimitives[callee.Name()] {
					writes = true
				}
				k++
				ok2 := fromGetEventsPath(c.Common().Args[argIdx], fn, 0)
				out = append(out, censusResult{Name: fmt.Sprintf("census/log-path[%s->%s#%d]", n, callee.Name(), k), OK: ok2,
					Detail: "the path argument of the log primitive flows from getEventsPath (so every command works on the file the store's discovery rule selects)"})
			}
		}
		if writes {
			_, has := e.cf.Funcs[n]
			out = append(out, censusResult{Name: fmt.Sprintf("census/writer-has-contract[%s]", n), OK: has,
				Detail: "every function that calls a log write primitive is under contract (lock held, same epoch, one commit)"})
		}
	}
	return out
}

func cellProvenance(cell ssa.Value, fn *ssa.Function, depth int, f func(ssa.Value, *ssa.Function, int) bool) bool {
	refs := cell.Referrers()
	if refs == nil {
		return false
	}
	stores := 0
	for _, r := range *refs {
		if st, ok := r.(*ssa.Store); ok && st.Addr == cell {
			stores++
			if !f(st.Val, fn, depth) {
				return false
			}
		}
	}
	return stores > 0
}
