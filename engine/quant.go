package main

import (
	"strings"
)

// absolutize rewrites a quantified formula so that an integer bound variable v that is used as a
// slice index relative to one offset term X (every index occurrence has the shape "(idx X v)") ranges
// over absolute positions instead: "(idx X v)" becomes "v" and every other occurrence of v becomes
// "(- v X)". The formula is equivalent (v' = X + v is a bijection on Int) and its element terms no
// longer contain arithmetic, which makes them usable as e-matching triggers.
func absolutize(text string, v string) string {
	type occ struct{ start, end int } // span of "(idx X v)"
	var spans []occ
	var offs []string
	// find tokens equal to v
	i := 0
	for {
		j := strings.Index(text[i:], v)
		if j < 0 {
			break
		}
		j += i
		end := j + len(v)
		i = end
		if j > 0 && !isDelim(text[j-1]) {
			continue
		}
		if end < len(text) && !isDelim(text[end]) {
			continue
		}
		// is it the last argument of "(idx X v)"?
		if end < len(text) && text[end] == ')' && j > 0 && text[j-1] == ' ' {
			// walk back to the matching '('
			depth := 0
			k := j - 1
			for k >= 0 {
				if text[k] == ')' {
					depth++
				} else if text[k] == '(' {
					if depth == 0 {
						break
					}
					depth--
				}
				k--
			}
			if k >= 0 && strings.HasPrefix(text[k:], "(idx ") {
				x := strings.TrimSpace(text[k+5 : j-1])
				if x != "" && balancedSingle(x) {
					spans = append(spans, occ{k, end + 1})
					offs = append(offs, x)
				}
			}
		}
	}
	if len(spans) == 0 {
		return text
	}
	for _, x := range offs[1:] {
		if x != offs[0] {
			return text
		}
	}
	X := offs[0]
	if containsToken(X, v) {
		return text
	}
	// rebuild: replace spans by v, other tokens v by (- v X)
	var b strings.Builder
	pos := 0
	for _, sp := range spans {
		b.WriteString(replaceToken(text[pos:sp.start], v, "(- "+v+" "+X+")"))
		b.WriteString(v)
		pos = sp.end
	}
	b.WriteString(replaceToken(text[pos:], v, "(- "+v+" "+X+")"))
	return b.String()
}

func isDelim(c byte) bool { return c == ' ' || c == '(' || c == ')' || c == '\n' || c == '\t' }

func balancedSingle(s string) bool {
	// s is one atom or one parenthesised expression
	if !strings.HasPrefix(s, "(") {
		return !strings.ContainsAny(s, " ()")
	}
	depth := 0
	for i := 0; i < len(s); i++ {
		if s[i] == '(' {
			depth++
		} else if s[i] == ')' {
			depth--
			if depth == 0 && i != len(s)-1 {
				return false
			}
		}
	}
	return depth == 0
}

func containsToken(s, tok string) bool {
	i := 0
	for {
		j := strings.Index(s[i:], tok)
		if j < 0 {
			return false
		}
		j += i
		end := j + len(tok)
		if (j == 0 || isDelim(s[j-1])) && (end == len(s) || isDelim(s[end])) {
			return true
		}
		i = end
	}
}

func replaceToken(s, tok, with string) string {
	var b strings.Builder
	i := 0
	for {
		j := strings.Index(s[i:], tok)
		if j < 0 {
			b.WriteString(s[i:])
			return b.String()
		}
		j += i
		end := j + len(tok)
		if (j == 0 || isDelim(s[j-1])) && (end == len(s) || isDelim(s[end])) {
			b.WriteString(s[i:j])
			b.WriteString(with)
		} else {
			b.WriteString(s[i:end])
		}
		i = end
	}
}

// mkQuant builds a quantifier, absolutizing integer index variables.
func mkQuant(kind string, vars []Term, body string, pats []string) Term {
	var binders []string
	for _, v := range vars {
		binders = append(binders, "("+v.S+" "+string(v.Sort)+")")
	}
	inner := body
	if len(pats) > 0 {
		inner = "(! " + body + " " + strings.Join(pats, " ") + ")"
	}
	for _, v := range vars {
		if v.Sort == SInt {
			inner = absolutize(inner, v.S)
		}
	}
	return Term{"(" + kind + " (" + strings.Join(binders, " ") + ") " + inner + ")", SBool}
}
