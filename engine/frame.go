package main

import (
	"fmt"
	"go/token"
	"go/types"
	"os"
	"sort"
	"strings"

	"golang.org/x/tools/go/ssa"
)

type Place struct {
	Kind  string // cell | field | elem | box | struct
	Heap  string
	Ref   Term
	Idx   Term
	Sort  Sort
	Type  types.Type // pointee type (for cellfield: the struct type)
	Field int
	Outer *Place // cellfield nested in another cellfield (struct-valued field of a struct cell)
}

type edge struct {
	from *ssa.BasicBlock
	cond Term
	st   *State
}

type retRec struct {
	blk   *ssa.BasicBlock
	guard Term
	vals  []Term
	st    *State
}

type rangeRec struct {
	mapTerm Term
	mapType types.Type
	visited string
	keySort Sort
}

type LoopInfo struct {
	header       *ssa.BasicBlock
	blocks       map[*ssa.BasicBlock]bool
	ordinal      int
	lc           *LoopContract
	headState    *State
	entryPhi     map[*ssa.Phi]Term
	visited      string
	visKey       Sort
	writes       map[string]bool
	frameVars    []string
	targets      map[string][]ssa.Value
	entryState   *State
	fieldTargets map[string][]*ssa.FieldAddr
}

type deferRec struct {
	instr  *ssa.Defer
	pushed Term
}

type Frame struct {
	c             *Enc
	fn            *ssa.Function
	id            string
	vals          map[ssa.Value]Term
	tuples        map[ssa.Value][]Term
	places        map[ssa.Value]*Place
	arrayPtr      map[ssa.Value]bool
	at            map[*ssa.BasicBlock]Term
	edgesIn       map[*ssa.BasicBlock][]*edge
	loops         map[*ssa.BasicBlock]*LoopInfo
	fc            *FuncContract
	entry         *State
	rets          []retRec
	ranges        map[ssa.Value]*rangeRec
	top           bool
	defers        []*deferRec
	closures      map[ssa.Value]*ssa.MakeClosure
	fvCell        map[*ssa.FreeVar]string
	curBlock      *ssa.BasicBlock
	closureFrames map[ssa.Value]*Frame
	witness       map[string]TV
	exitLocals    map[string]TV
}

func (c *Enc) newFrame(fn *ssa.Function, top bool) *Frame {
	c.frameDepth++
	id := ""
	if !top {
		c.n++
		id = fmt.Sprintf("i%d_", c.n)
	}
	return &Frame{c: c, fn: fn, id: id, vals: map[ssa.Value]Term{}, tuples: map[ssa.Value][]Term{}, places: map[ssa.Value]*Place{},
		arrayPtr: map[ssa.Value]bool{}, at: map[*ssa.BasicBlock]Term{}, edgesIn: map[*ssa.BasicBlock][]*edge{}, loops: map[*ssa.BasicBlock]*LoopInfo{},
		ranges: map[ssa.Value]*rangeRec{}, top: top, closures: map[ssa.Value]*ssa.MakeClosure{}, fvCell: map[*ssa.FreeVar]string{},
		fc: c.eng.cf.Funcs[funcKey(fn)]}
}

// ---------------------------------------------------------------------------
// values and places

func (fr *Frame) val(v ssa.Value) Term {
	c := fr.c
	switch x := v.(type) {
	case *ssa.Const:
		return c.constTerm(x)
	case *ssa.Function:
		name := "fn_" + sanitize(funcKey(x))
		c.declare(name, SInt)
		return Term{name, SInt}
	case *ssa.Global:
		c.errorf("%s: address of global %s used as a value", funcKey(fr.fn), x.Name())
		return IntLit(0)
	}
	if t, ok := fr.vals[v]; ok {
		return t
	}
	if _, ok := fr.places[v]; ok {
		c.errorf("%s: pointer %s (%s) used as a first-class value", funcKey(fr.fn), v.Name(), v.Type())
		return IntLit(0)
	}
	if fv, ok := v.(*ssa.FreeVar); ok {
		_ = fv
		c.errorf("%s: free variable %s used as a first-class pointer", funcKey(fr.fn), v.Name())
		return IntLit(0)
	}
	c.errorf("%s: value %s (%T) not defined before use", funcKey(fr.fn), v.Name(), v)
	return c.fresh("undef", c.sortOf(v.Type()))
}

func isStructPtr(t types.Type) (types.Type, bool) {
	p, ok := t.Underlying().(*types.Pointer)
	if !ok {
		return nil, false
	}
	if isTimeType(p.Elem()) {
		return nil, false
	}
	if foreignNamed(p.Elem()) {
		return nil, false // *os.File, *bufio.Writer, ...: opaque handles
	}
	if _, ok := p.Elem().Underlying().(*types.Struct); ok {
		return p.Elem(), true
	}
	return nil, false
}

// foreignNamed: a named type declared outside the package under verification (its fields are never read here).
func foreignNamed(t types.Type) bool {
	n, ok := t.(*types.Named)
	if !ok || n.Obj() == nil || n.Obj().Pkg() == nil {
		return false
	}
	return !strings.HasSuffix(n.Obj().Pkg().Path(), "internal/ergo")
}

// place resolves a pointer-typed SSA value to a location.
func (fr *Frame) place(v ssa.Value) *Place {
	c := fr.c
	if p, ok := fr.places[v]; ok {
		return p
	}
	switch x := v.(type) {
	case *ssa.Global:
		elem := x.Type().(*types.Pointer).Elem()
		name := "GL_" + x.Name()
		c.cellVar(name, elem)
		if fr.id != "init_" {
			c.initFacts()
		}
		return &Place{Kind: "cell", Heap: name, Sort: c.sortOf(elem), Type: elem}
	case *ssa.FreeVar:
		elem := x.Type().(*types.Pointer).Elem()
		name, ok := fr.fvCell[x]
		if !ok {
			name = "FV_" + sanitize(funcKey(fr.fn)) + "_" + x.Name()
			fr.fvCell[x] = name
		}
		c.cellVar(name, elem)
		return &Place{Kind: "cell", Heap: name, Sort: c.sortOf(elem), Type: elem}
	}
	pt, ok := v.Type().Underlying().(*types.Pointer)
	if !ok {
		c.errorf("%s: place of non-pointer %s", funcKey(fr.fn), v.Name())
		return &Place{Kind: "cell", Heap: c.cellVar("bad", types.Typ[types.Int]), Sort: SInt, Type: types.Typ[types.Int]}
	}
	if st, ok := isStructPtr(v.Type()); ok {
		return &Place{Kind: "struct", Ref: fr.val(v), Type: st, Sort: c.sortOf(st)}
	}
	// runtime pointer to a non-struct: boxed cell
	heap, s := c.boxHeap(pt.Elem())
	return &Place{Kind: "box", Heap: heap, Ref: fr.val(v), Sort: s, Type: pt.Elem()}
}

func (fr *Frame) load(p *Place, st *State) Term {
	c := fr.c
	switch p.Kind {
	case "cell":
		return c.get(st, p.Heap)
	case "cellfield":
		si := c.structInfoOf(p.Type)
		f := si.fields[p.Field]
		base := c.get(st, p.Heap)
		if p.Outer != nil {
			base = fr.load(p.Outer, st)
		}
		return Term{app(string(si.sort)+"_"+f.name, base), f.sort}
	case "field", "box":
		return Select(c.get(st, p.Heap), p.Ref, p.Sort)
	case "elem":
		return Select(Select(c.get(st, p.Heap), p.Ref, ArraySort(SInt, p.Sort)), p.Idx, p.Sort)
	case "struct":
		si := c.structInfoOf(p.Type)
		var parts []Term
		for i := range si.fields {
			heap, fs, _ := c.fieldHeap(p.Type, i)
			parts = append(parts, Select(c.get(st, heap), p.Ref, fs))
		}
		return Term{app("mk_"+string(si.sort), parts...), si.sort}
	}
	panic("bad place kind " + p.Kind)
}

func (fr *Frame) store(p *Place, st *State, v Term) {
	c := fr.c
	switch p.Kind {
	case "cell":
		st.h[p.Heap] = v
		if strings.Contains(v.S, " ") && len(v.S) > 60 {
			c.set(st, p.Heap, v)
		}
	case "cellfield":
		si := c.structInfoOf(p.Type)
		cur := c.get(st, p.Heap)
		if p.Outer != nil {
			cur = fr.load(p.Outer, st)
		}
		var parts []Term
		for i, f := range si.fields {
			if i == p.Field {
				parts = append(parts, v)
			} else {
				parts = append(parts, Term{app(string(si.sort)+"_"+f.name, cur), f.sort})
			}
		}
		nv := Term{app("mk_"+string(si.sort), parts...), si.sort}
		if p.Outer != nil {
			fr.store(p.Outer, st, nv)
			return
		}
		c.set(st, p.Heap, nv)
	case "field", "box":
		c.set(st, p.Heap, Store(c.get(st, p.Heap), p.Ref, v))
	case "elem":
		h := c.get(st, p.Heap)
		inner := Select(h, p.Ref, ArraySort(SInt, p.Sort))
		c.set(st, p.Heap, Store(h, p.Ref, Store(inner, p.Idx, v)))
	case "struct":
		si := c.structInfoOf(p.Type)
		for i, f := range si.fields {
			heap, _, _ := c.fieldHeap(p.Type, i)
			fv := Term{app(string(si.sort)+"_"+f.name, v), f.sort}
			c.set(st, heap, Store(c.get(st, heap), p.Ref, fv))
		}
	default:
		panic("bad place kind " + p.Kind)
	}
}

// ---------------------------------------------------------------------------
// loops

func (fr *Frame) findLoops() {
	fn := fr.fn
	var headers []*ssa.BasicBlock
	for _, b := range fn.Blocks {
		for _, p := range b.Preds {
			if b.Dominates(p) {
				if _, ok := fr.loops[b]; !ok {
					fr.loops[b] = &LoopInfo{header: b, blocks: map[*ssa.BasicBlock]bool{b: true}, entryPhi: map[*ssa.Phi]Term{}}
					headers = append(headers, b)
				}
				// natural loop: blocks reaching p without passing b
				li := fr.loops[b]
				stack := []*ssa.BasicBlock{p}
				for len(stack) > 0 {
					x := stack[len(stack)-1]
					stack = stack[:len(stack)-1]
					if li.blocks[x] {
						continue
					}
					li.blocks[x] = true
					stack = append(stack, x.Preds...)
				}
			}
		}
	}
	sort.Slice(headers, func(i, j int) bool { return headers[i].Index < headers[j].Index })
	for i, h := range headers {
		li := fr.loops[h]
		li.ordinal = i
		if fr.fc != nil {
			li.lc = fr.fc.Loops[i]
		}
	}
}

func isBackEdge(from, to *ssa.BasicBlock) bool { return to.Dominates(from) }

func (fr *Frame) rpo() []*ssa.BasicBlock {
	seen := map[*ssa.BasicBlock]bool{}
	var post []*ssa.BasicBlock
	var dfs func(b *ssa.BasicBlock)
	inner := func(b *ssa.BasicBlock) *LoopInfo {
		var best *LoopInfo
		for _, li := range fr.loops {
			if li.blocks[b] && (best == nil || len(li.blocks) < len(best.blocks)) {
				best = li
			}
		}
		return best
	}
	dfs = func(b *ssa.BasicBlock) {
		seen[b] = true
		li := inner(b)
		// first the successors that leave b's innermost loop, then the others (reverse postorder then
		// lists a loop's blocks contiguously, before the code after the loop)
		var order []*ssa.BasicBlock
		for _, s := range b.Succs {
			if li != nil && !li.blocks[s] {
				order = append(order, s)
			}
		}
		for i := len(b.Succs) - 1; i >= 0; i-- {
			s := b.Succs[i]
			if li == nil || li.blocks[s] {
				order = append(order, s)
			}
		}
		for _, s := range order {
			if isBackEdge(b, s) || seen[s] {
				continue
			}
			dfs(s)
		}
		post = append(post, b)
	}
	if len(fr.fn.Blocks) > 0 {
		dfs(fr.fn.Blocks[0])
	}
	for i, j := 0, len(post)-1; i < j; i, j = i+1, j-1 {
		post[i], post[j] = post[j], post[i]
	}
	return post
}

// merge combines incoming edges into one guard and state.
func (fr *Frame) merge(edges []*edge, label string) (Term, *State) {
	c := fr.c
	if len(edges) == 0 {
		return False, &State{h: map[string]Term{}}
	}
	if len(edges) == 1 {
		g := edges[0].cond
		if strings.Contains(g.S, " ") {
			sym := c.fresh("at_"+fr.id+label, SBool)
			c.assert(Eq(sym, g))
			g = sym
		}
		return g, edges[0].st.clone()
	}
	var conds []Term
	for _, e := range edges {
		conds = append(conds, e.cond)
	}
	at := c.fresh("at_"+fr.id+label, SBool)
	c.assert(Eq(at, Or(conds...)))
	keys := map[string]bool{}
	for _, e := range edges {
		for k := range e.st.h {
			keys[k] = true
		}
	}
	st := &State{h: map[string]Term{}}
	for _, k := range sortedKeysOf(keys) {
		first := c.get(edges[0].st, k)
		same := true
		for _, e := range edges[1:] {
			if c.get(e.st, k).S != first.S {
				same = false
				break
			}
		}
		if same {
			st.h[k] = first
			continue
		}
		sym := c.fresh(k, c.heapSorts[k])
		for _, e := range edges {
			c.assume(e.cond, Eq(sym, c.get(e.st, k)))
		}
		st.h[k] = sym
	}
	return at, st
}

// ---------------------------------------------------------------------------
// body encoding

func (fr *Frame) encodeBody(entryGuard Term, st *State) {
	c := fr.c
	fn := fr.fn
	if len(fn.Blocks) == 0 {
		c.errorf("%s has no body", funcKey(fn))
		return
	}
	fr.entry = st.clone()
	fr.findLoops()
	fr.edgesIn[fn.Blocks[0]] = []*edge{{cond: entryGuard, st: st}}
	for _, b := range fr.rpo() {
		fr.curBlock = b
		if fr.top {
			c.curBlk = b
		}
		var at Term
		var cur *State
		if li, ok := fr.loops[b]; ok {
			at, cur = fr.enterLoop(li)
		} else {
			at, cur = fr.merge(fr.edgesIn[b], fmt.Sprintf("b%d", b.Index))
			// phis
			for _, ins := range b.Instrs {
				phi, ok := ins.(*ssa.Phi)
				if !ok {
					break
				}
				fr.encodePhi(phi, fr.edgesIn[b], cur)
			}
		}
		fr.at[b] = at
		if at.S == "false" {
			// unreachable block: still define values to avoid undefined-use errors
		}
		for _, ins := range b.Instrs {
			if _, ok := ins.(*ssa.Phi); ok {
				continue
			}
			fr.encodeInstr(ins, at, cur)
		}
	}
	if fr.top {
		c.curBlk = nil
	}
}

func (fr *Frame) encodePhi(phi *ssa.Phi, edges []*edge, merged *State) {
	c := fr.c
	if _, isPtr := phi.Type().Underlying().(*types.Pointer); isPtr {
		if _, ok := isStructPtr(phi.Type()); !ok {
			// phi of places: only supported when all incoming are the same place
		}
	}
	sym := c.fresh(fr.id+phiName(phi), c.sortOf(phi.Type()))
	fr.vals[phi] = sym
	b := phi.Block()
	if len(edges) > 0 {
		fr.assumeAllocated(phi.Type(), sym, merged)
	}
	for _, e := range edges {
		// find the operand for this predecessor
		for i, p := range b.Preds {
			if p == e.from {
				c.assume(e.cond, Eq(sym, fr.val(phi.Edges[i])))
				break
			}
		}
	}
}

func phiName(phi *ssa.Phi) string {
	if phi.Comment != "" {
		return sanitize(phi.Comment)
	}
	return phi.Name()
}

func (fr *Frame) addEdge(from, to *ssa.BasicBlock, cond Term, st *State) {
	if isBackEdge(from, to) {
		fr.backEdge(from, to, cond, st)
		return
	}
	fr.edgesIn[to] = append(fr.edgesIn[to], &edge{from: from, cond: cond, st: st})
}

// loopWrites computes heap variables possibly written inside the loop. For map updates/deletes and
// field stores whose object is defined outside the loop, the write is recorded as targeted: only
// that object's entry of the heap array is havocked at the loop head.
func (fr *Frame) loopWrites(li *LoopInfo) map[string]bool {
	c := fr.c
	ws := map[string]bool{}
	li.targets = map[string][]ssa.Value{}
	general := map[string]bool{}
	invariantVal := func(v ssa.Value) bool {
		switch x := v.(type) {
		case *ssa.Parameter, *ssa.Const:
			return true
		case ssa.Instruction:
			_, isVal := v.(ssa.Value)
			return isVal && !li.blocks[x.Block()]
		}
		return false
	}
	addTarget := func(heap string, v ssa.Value) {
		for _, o := range li.targets[heap] {
			if o == v {
				return
			}
		}
		li.targets[heap] = append(li.targets[heap], v)
	}
	// fieldLoad: v is "*(&X.f)" with X loop-invariant
	fieldLoad := func(v ssa.Value) (*ssa.FieldAddr, bool) {
		u, ok := v.(*ssa.UnOp)
		if !ok {
			return nil, false
		}
		fa, ok := u.X.(*ssa.FieldAddr)
		if !ok || !invariantVal(fa.X) {
			return nil, false
		}
		return fa, true
	}
	var pendingFieldLoads []struct {
		heap string
		v    ssa.Value
		fa   *ssa.FieldAddr
	}
	for b := range li.blocks {
		for _, ins := range b.Instrs {
			one := map[string]bool{}
			fr.instrWrites(ins, one)
			for w := range one {
				ws[w] = true
			}
			targeted := false
			switch x := ins.(type) {
			case *ssa.MapUpdate:
				if invariantVal(x.Map) {
					d, v, _, _ := c.mapHeaps(x.Map.Type())
					addTarget(d, x.Map)
					addTarget(v, x.Map)
					targeted = true
				} else if fa, ok := fieldLoad(x.Map); ok {
					d, v, _, _ := c.mapHeaps(x.Map.Type())
					pendingFieldLoads = append(pendingFieldLoads, struct {
						heap string
						v    ssa.Value
						fa   *ssa.FieldAddr
					}{d, x.Map, fa}, struct {
						heap string
						v    ssa.Value
						fa   *ssa.FieldAddr
					}{v, x.Map, fa})
					targeted = true
				}
			case *ssa.Call:
				if bi, ok := x.Common().Value.(*ssa.Builtin); ok && bi.Name() == "delete" && invariantVal(x.Common().Args[0]) {
					d, _, _, _ := c.mapHeaps(x.Common().Args[0].Type())
					addTarget(d, x.Common().Args[0])
					targeted = true
				}
			case *ssa.Store:
				if fa, ok := x.Addr.(*ssa.FieldAddr); ok && invariantVal(fa.X) {
					pt := fa.X.Type().Underlying().(*types.Pointer).Elem()
					h, _, _ := c.fieldHeap(pt, fa.Field)
					addTarget(h, fa.X)
					targeted = true
				}
			}
			if !targeted {
				for w := range one {
					general[w] = true
				}
			}
		}
	}
	li.fieldTargets = map[string][]*ssa.FieldAddr{}
	for _, p := range pendingFieldLoads {
		pt := p.fa.X.Type().Underlying().(*types.Pointer).Elem()
		fh, _, _ := c.fieldHeap(pt, p.fa.Field)
		if ws[fh] {
			// the field itself may change in the loop: not a stable target
			general[p.heap] = true
			continue
		}
		dup := false
		for _, o := range li.fieldTargets[p.heap] {
			if o.X == p.fa.X && o.Field == p.fa.Field {
				dup = true
			}
		}
		if !dup {
			li.fieldTargets[p.heap] = append(li.fieldTargets[p.heap], p.fa)
		}
	}
	for h := range li.targets {
		if general[h] {
			delete(li.targets, h)
		}
	}
	for h := range li.fieldTargets {
		if general[h] {
			delete(li.fieldTargets, h)
		}
	}
	return ws
}

func (fr *Frame) enterLoop(li *LoopInfo) (Term, *State) {
	c := fr.c
	h := li.header
	var entryEdges []*edge
	for _, e := range fr.edgesIn[h] {
		entryEdges = append(entryEdges, e)
	}
	atEntry, stEntry := fr.merge(entryEdges, fmt.Sprintf("b%d", h.Index))
	// visited set of a map range whose Next is in the header
	for _, ins := range h.Instrs {
		if nx, ok := ins.(*ssa.Next); ok && !nx.IsString {
			if rr, ok := fr.ranges[nx.Iter]; ok {
				li.visited = rr.visited
				li.visKey = rr.keySort
			}
		}
	}
	// entry values of phis
	var phis []*ssa.Phi
	for _, ins := range h.Instrs {
		phi, ok := ins.(*ssa.Phi)
		if !ok {
			break
		}
		phis = append(phis, phi)
		var ev Term
		if len(entryEdges) == 1 {
			for i, p := range h.Preds {
				if p == entryEdges[0].from && !isBackEdge(p, h) {
					ev = fr.val(phi.Edges[i])
				}
			}
		} else {
			ev = c.fresh(fr.id+phiName(phi)+"_entry", c.sortOf(phi.Type()))
			for _, e := range entryEdges {
				for i, p := range h.Preds {
					if p == e.from && !isBackEdge(p, h) {
						c.assume(e.cond, Eq(ev, fr.val(phi.Edges[i])))
					}
				}
			}
		}
		li.entryPhi[phi] = ev
	}
	name := fmt.Sprintf("%s/loop%d", funcKey(c.top), li.ordinal)
	if !fr.top {
		name = fmt.Sprintf("%s/inl:%s/loop%d", funcKey(c.top), funcKey(fr.fn), li.ordinal)
	}
	li.writes = fr.loopWrites(li)
	li.entryState = stEntry.clone()
	// frame invariants for location heaps not declared modifiable by the top-level contract
	for _, w := range sortedKeysOf(li.writes) {
		if isLocationHeap(w) && !c.topModifies(w) {
			li.frameVars = append(li.frameVars, w)
		}
	}
	// 1. invariants hold on entry
	overrideEntry := map[*ssa.Phi]Term{}
	for p, t := range li.entryPhi {
		overrideEntry[p] = t
	}
	if li.lc != nil {
		for _, cl := range li.lc.Clauses {
			if cl.Kind != "invariant" {
				continue
			}
			x := fr.evalCtxAt(stEntry, fr.entryStateForOld(), li, overrideEntry)
			if g, ok := x.evalBool(cl.Expr); ok {
				c.obligeClause(cl, fmt.Sprintf("%s/entry[%s]", name, cl.Label), "invariant-entry", atEntry, g, cl.Text)
			}
		}
	}
	for _, w := range li.frameVars {
		c.oblige(fmt.Sprintf("%s/entry[frame:%s]", name, w), "frame", atEntry, c.frameFormula(stEntry, w), "locations allocated before the call keep their content in "+w)
	}
	// 2. havoc
	stH := stEntry.clone()
	preNext := c.nextRef(stEntry)
	for _, w := range sortedKeysOf(li.writes) {
		if _, ok := c.heapSorts[w]; !ok {
			continue
		}
		if len(li.targets[w])+len(li.fieldTargets[w]) > 0 {
			// targeted havoc: only the entries of the loop-invariant objects change
			cur := c.get(stH, w)
			inner := innerSortOf(c.heapSorts[w])
			for _, v := range li.targets[w] {
				cur = Store(cur, fr.val(v), c.fresh(w+"_obj", inner))
			}
			for _, fa := range li.fieldTargets[w] {
				pt := fa.X.Type().Underlying().(*types.Pointer).Elem()
				fh, fs, _ := c.fieldHeap(pt, fa.Field)
				ref := Select(c.get(stEntry, fh), fr.val(fa.X), fs)
				cur = Store(cur, ref, c.fresh(w+"_obj", inner))
			}
			c.set(stH, w, cur)
			continue
		}
		c.havoc(stH, w)
	}
	if li.writes["nextRef"] {
		c.assume(atEntry, Le(preNext, c.nextRef(stH)))
	}
	for _, phi := range phis {
		fr.vals[phi] = c.fresh(fr.id+phiName(phi), c.sortOf(phi.Type()))
		fr.assumeAllocated(phi.Type(), fr.vals[phi], stH)
		if isRangeIndexPhi(phi) {
			// automatic invariant for slice ranges: -1 <= i (index phi starts at -1)
			c.assume(atEntry, Le(IntLit(-1), fr.vals[phi]))
		}
	}
	li.headState = stH.clone()
	// 3. assume invariants
	if li.lc != nil {
		for _, cl := range li.lc.Clauses {
			if cl.Kind != "invariant" {
				continue
			}
			x := fr.evalCtxAt(stH, fr.entryStateForOld(), li, nil)
			if g, ok := x.evalBool(cl.Expr); ok {
				c.assumeClause(atEntry, g, cl.Label)
			}
		}
	}
	for _, w := range li.frameVars {
		c.assume(atEntry, c.frameFormula(stH, w))
	}
	// automatic invariant of a map range whose map type is not written in the loop: visited keys are keys of the map
	for _, ins := range h.Instrs {
		if nx, ok := ins.(*ssa.Next); ok && !nx.IsString {
			if rr, ok := fr.ranges[nx.Iter]; ok {
				dom, _, ks, _ := c.mapHeaps(rr.mapType)
				if !li.writes[dom] {
					c.n++
					q := fmt.Sprintf("vk!%d", c.n)
					V := c.get(stH, rr.visited)
					d := Select(c.get(stH, dom), rr.mapTerm, ArraySort(ks, SBool))
					c.assume(atEntry, Term{fmt.Sprintf("(forall ((%s %s)) (! (=> (select %s %s) (select %s %s)) :pattern ((select %s %s))))", q, ks, V.S, q, d.S, q, V.S, q), SBool})
				}
			}
		}
	}
	return atEntry, stH
}

func innerSortOf(arr Sort) Sort {
	// "(Array Int X)" -> X
	s := string(arr)
	return Sort(strings.TrimSuffix(strings.TrimPrefix(s, "(Array Int "), ")"))
}

func isRangeIndexPhi(phi *ssa.Phi) bool {
	return phi.Comment == "rangeindex"
}

func (fr *Frame) entryStateForOld() *State {
	// old() in contracts refers to the entry state of the top-level function
	return &State{h: map[string]Term{}}
}

func isLocationHeap(w string) bool {
	return strings.HasPrefix(w, "F_") || strings.HasPrefix(w, "MD_") || strings.HasPrefix(w, "MV_") || strings.HasPrefix(w, "EL_") || strings.HasPrefix(w, "BX_")
}

// frameFormula: every location allocated at function entry has its entry content.
func (c *Enc) frameFormula(st *State, heap string) Term {
	cur := c.get(st, heap)
	init := c.heapInit[heap]
	if cur.S == init.S {
		return True
	}
	c.heapVar("nextRef", SInt)
	c.n++
	r := fmt.Sprintf("fr!%d", c.n)
	cond := fmt.Sprintf("(< %s %s)", r, c.heapInit["nextRef"].S)
	for _, ex := range c.topModifiesAt(heap) {
		cond = fmt.Sprintf("(and %s (not (= %s %s)))", cond, r, ex.S)
	}
	return Term{fmt.Sprintf("(forall ((%s Int)) (! (=> %s (= (select %s %s) (select %s %s))) :pattern ((select %s %s))))",
		r, cond, cur.S, r, init.S, r, cur.S, r), SBool}
}

func (c *Enc) topModifies(heap string) bool {
	fc := c.eng.cf.Funcs[funcKey(c.top)]
	if fc == nil {
		return false
	}
	for _, m := range fc.Modifies {
		if m.At != nil {
			continue
		}
		for _, h := range c.modifiesHeaps(m.Pat) {
			if h == heap {
				return true
			}
		}
	}
	return false
}

// topModifiesAt: the objects of `heap` the top-level contract allows to change (entries with "at").
func (c *Enc) topModifiesAt(heap string) []Term {
	return c.topAtRefs[heap]
}

// atRef turns the value of an "at" expression into the index of its object in the heap array.
func atRef(tv TV) Term {
	if tv.T.Sort == SSlice {
		return slArr(tv.T)
	}
	return tv.T
}

// modifiesHeaps maps a modifies pattern to heap variable names.
func (c *Enc) modifiesHeaps(pat string) []string {
	pat = strings.TrimSpace(pat)
	if strings.HasPrefix(pat, "ghost ") {
		name := strings.TrimSpace(strings.TrimPrefix(pat, "ghost "))
		if cell, ok := c.ghostCell(name); ok {
			return []string{cell}
		}
		c.errorf("modifies: unknown ghost %s", name)
		return nil
	}
	if strings.HasPrefix(pat, "cell ") {
		return []string{"CELL:" + strings.TrimSpace(strings.TrimPrefix(pat, "cell "))}
	}
	if strings.HasPrefix(pat, "global ") {
		name := strings.TrimSpace(strings.TrimPrefix(pat, "global "))
		if v, ok := c.eng.tpkg.Scope().Lookup(name).(*types.Var); ok {
			return []string{c.cellVar("GL_"+name, v.Type())}
		}
	}
	// Struct.Field
	if idx := strings.Index(pat, "."); idx > 0 && !strings.ContainsAny(pat, "[]*") {
		ty, err := c.eng.resolveType(pat[:idx])
		if err == nil {
			if st, ok := ty.Underlying().(*types.Struct); ok {
				fi := fieldIndex(st, pat[idx+1:])
				if fi >= 0 {
					h, _, _ := c.fieldHeap(ty, fi)
					return []string{h}
				}
			}
		}
		c.errorf("modifies: cannot resolve %s", pat)
		return nil
	}
	ty, err := c.eng.resolveType(pat)
	if err != nil {
		c.errorf("modifies: %v", err)
		return nil
	}
	switch u := ty.Underlying().(type) {
	case *types.Map:
		d, v, _, _ := c.mapHeaps(ty)
		return []string{d, v}
	case *types.Slice:
		h, _ := c.elemHeap(u.Elem())
		return []string{h}
	case *types.Struct:
		var out []string
		for i := 0; i < u.NumFields(); i++ {
			h, _, _ := c.fieldHeap(ty, i)
			out = append(out, h)
		}
		return out
	case *types.Pointer:
		h, _ := c.boxHeap(u.Elem())
		return []string{h}
	}
	c.errorf("modifies: unsupported pattern %s", pat)
	return nil
}

func (fr *Frame) backEdge(from, to *ssa.BasicBlock, cond Term, st *State) {
	c := fr.c
	li := fr.loops[to]
	name := fmt.Sprintf("%s/loop%d", funcKey(c.top), li.ordinal)
	if !fr.top {
		name = fmt.Sprintf("%s/inl:%s/loop%d", funcKey(c.top), funcKey(fr.fn), li.ordinal)
	}
	override := map[*ssa.Phi]Term{}
	for _, ins := range to.Instrs {
		phi, ok := ins.(*ssa.Phi)
		if !ok {
			break
		}
		for i, p := range to.Preds {
			if p == from {
				override[phi] = fr.val(phi.Edges[i])
			}
		}
	}
	suffix := ""
	// several back edges: disambiguate by source block ordinal among back edges
	nBack := 0
	myIdx := 0
	for _, p := range to.Preds {
		if isBackEdge(p, to) {
			if p == from {
				myIdx = nBack
			}
			nBack++
		}
	}
	if nBack > 1 {
		suffix = fmt.Sprintf("@back%d", myIdx)
	}
	if li.lc != nil {
		for _, cl := range li.lc.Clauses {
			switch cl.Kind {
			case "invariant":
				x := fr.evalCtxAt(st, fr.entryStateForOld(), li, override)
				if g, ok := x.evalBool(cl.Expr); ok {
					c.obligeClause(cl, fmt.Sprintf("%s/preserved[%s]%s", name, cl.Label, suffix), "invariant-preserved", cond, g, cl.Text)
				}
			case "step":
				// two-state: old() is the state at the loop head of this iteration
				x := fr.evalCtxAt(st, li.headState, li, override)
				x.stepMode = true
				if g, ok := x.evalBool(cl.Expr); ok {
					c.obligeClause(cl, fmt.Sprintf("%s/step[%s]%s", name, cl.Label, suffix), "step", cond, g, cl.Text)
				}
			}
		}
	}
	for _, w := range li.frameVars {
		c.oblige(fmt.Sprintf("%s/preserved[frame:%s]%s", name, w, suffix), "frame", cond, c.frameFormula(st, w), "locations allocated before the call keep their content in "+w)
	}
}

// evalCtxAt builds an evaluation context for contract clauses inside fr.
func (fr *Frame) evalCtxAt(st, old *State, li *LoopInfo, phiOverride map[*ssa.Phi]Term) *EvalCtx {
	x := &EvalCtx{c: fr.c, fr: fr, st: st, old: old, vars: map[string]TV{}}
	if li != nil {
		x.visited = li.visited
		x.visKey = li.visKey
		x.entrySt = li.entryState
	}
	var at *ssa.BasicBlock
	if li != nil {
		at = li.header
	}
	x.resolve = func(name string, cur *EvalCtx) (TV, bool) {
		ov := phiOverride
		if cur.inOld && cur.stepMode {
			ov = nil
		}
		if cur.atEntry && li != nil {
			ov = map[*ssa.Phi]Term{}
			for p, t := range li.entryPhi {
				ov[p] = t
			}
		}
		return fr.lookupLocal(name, at, ov, cur)
	}
	return x
}

// lookupLocal resolves a source-level variable name.
func (fr *Frame) lookupLocal(name string, at *ssa.BasicBlock, phiOverride map[*ssa.Phi]Term, x *EvalCtx) (TV, bool) {
	fn := fr.fn
	// a parameter that the loop reassigns is, at the loop head, the loop's phi of that name (go/ssa parameters
	// are immutable values; the source variable is not)
	if at != nil && name != "index" {
		for _, ins := range at.Instrs {
			phi, ok := ins.(*ssa.Phi)
			if !ok {
				break
			}
			if phi.Comment == name {
				if t, ok := phiOverride[phi]; ok {
					return TV{t, phi.Type()}, true
				}
				return TV{fr.val(phi), phi.Type()}, true
			}
		}
	}
	for _, p := range fn.Params {
		if p.Name() == name {
			if _, isPlace := fr.places[p]; isPlace {
				return TV{}, false
			}
			return TV{fr.val(p), p.Type()}, true
		}
	}
	for _, fv := range fn.FreeVars {
		if fv.Name() == name {
			pl := fr.place(fv)
			return TV{fr.load(pl, x.st), pl.Type}, true
		}
	}
	if at != nil {
		for _, ins := range at.Instrs {
			phi, ok := ins.(*ssa.Phi)
			if !ok {
				break
			}
			if name == "index" && phi.Comment == "rangeindex" {
				// number of completed iterations of a slice range loop
				if t, ok := phiOverride[phi]; ok {
					return TV{Add(t, IntLit(1)), tyInt}, true
				}
				return TV{Add(fr.val(phi), IntLit(1)), tyInt}, true
			}
			if phi.Comment == name {
				if t, ok := phiOverride[phi]; ok {
					return TV{t, phi.Type()}, true
				}
				return TV{fr.val(phi), phi.Type()}, true
			}
		}
	}
	if name == "elem" && at != nil {
		// the element of the ranged slice at position index-1 (the one the iteration just completed has processed),
		// whatever expression the loop ranges over - robust against inlining or renaming of that expression
		for _, ins := range at.Instrs {
			phi, ok := ins.(*ssa.Phi)
			if !ok {
				break
			}
			if phi.Comment != "rangeindex" {
				continue
			}
			for _, r := range *phi.Referrers() {
				inc, ok := r.(*ssa.BinOp)
				if !ok {
					continue
				}
				for _, r2 := range *inc.Referrers() {
					ia, ok := r2.(*ssa.IndexAddr)
					if !ok || ia.Index != ssa.Value(inc) {
						continue
					}
					sl, ok := ia.X.Type().Underlying().(*types.Slice)
					if !ok {
						continue
					}
					if _, known := fr.vals[ia.X]; !known {
						continue
					}
					var idx Term
					if t, ok := phiOverride[phi]; ok {
						idx = t
					} else {
						idx = fr.val(phi)
					}
					heap, es := fr.c.elemHeap(sl.Elem())
					return TV{fr.c.sliceElem(x.st, heap, es, fr.val(ia.X), idx), sl.Elem()}, true
				}
			}
		}
		return TV{}, false
	}
	if name == "outerindex" && at != nil {
		// index of the iteration in progress of the innermost enclosing slice range loop
		var outer *ssa.BasicBlock
		for h, li := range fr.loops {
			if h != at && li.blocks[at] && (outer == nil || len(li.blocks) < len(fr.loops[outer].blocks)) {
				outer = h
			}
		}
		if outer != nil {
			for _, ins := range outer.Instrs {
				phi, ok := ins.(*ssa.Phi)
				if !ok {
					break
				}
				if phi.Comment == "rangeindex" {
					return TV{Add(fr.val(phi), IntLit(1)), tyInt}, true
				}
			}
		}
		return TV{}, false
	}
	if tv, ok := fr.witness[name]; ok {
		return tv, true
	}
	if at == nil && len(fr.rets) > 1 {
		if tv, ok := fr.lookupLocalAtExit(name, x); ok {
			return tv, true
		}
	}
	// a variable that lives in memory (address taken: captured by a closure, or &x) is read from its cell in the
	// current state, whatever value a reference site happened to see
	for _, b := range fn.Blocks {
		for _, ins := range b.Instrs {
			dr, ok := ins.(*ssa.DebugRef)
			if !ok || !dr.IsAddr {
				continue
			}
			if obj := dr.Object(); obj == nil || obj.Name() != name {
				continue
			}
			if al, isAlloc := dr.X.(*ssa.Alloc); isAlloc {
				if at != nil && !al.Block().Dominates(at) {
					continue
				}
				if _, known := fr.places[al]; known {
					pl := fr.place(al)
					return TV{fr.load(pl, x.st), pl.Type}, true
				}
			}
		}
	}
	for _, b := range fn.Blocks {
		for _, ins := range b.Instrs {
			al, ok := ins.(*ssa.Alloc)
			if !ok || al.Comment != name {
				continue
			}
			if at != nil && !al.Block().Dominates(at) {
				continue
			}
			if pl, known := fr.places[al]; known && (pl.Kind == "cell" || pl.Kind == "box") {
				return TV{fr.load(pl, x.st), pl.Type}, true
			}
		}
	}
	// DebugRefs
	var best ssa.Value
	var bestAddr bool
	for _, b := range fn.Blocks {
		for _, ins := range b.Instrs {
			dr, ok := ins.(*ssa.DebugRef)
			if !ok {
				continue
			}
			obj := dr.Object()
			if obj == nil || obj.Name() != name {
				continue
			}
			if _, isVar := obj.(*types.Var); !isVar {
				continue
			}
			xv := dr.X
			var defBlock *ssa.BasicBlock
			if in, ok := xv.(ssa.Instruction); ok {
				defBlock = in.Block()
			}
			// the reference itself must sit before the loop head or inside the loop: a reference after the
			// loop may name a later value of the same variable (e.g. `x = y` following the loop)
			if at != nil && !dr.Block().Dominates(at) {
				if li, isLoop := fr.loops[at]; !isLoop || !li.blocks[dr.Block()] {
					continue
				}
			}
			if at != nil && defBlock != nil && !(defBlock.Dominates(at)) {
				continue
			}
			if at != nil && defBlock == at {
				// defined in the header itself: only phis are usable (handled above)
				if _, isPhi := xv.(*ssa.Phi); !isPhi {
					continue
				}
			}
			if best == nil {
				best, bestAddr = xv, dr.IsAddr
				continue
			}
			// prefer the definition closest to `at` in the dominator tree;
			// block-less values (constants standing for "no definition on this path") lose to any instruction
			bi, bestIsInstr := best.(ssa.Instruction)
			if !bestIsInstr && defBlock != nil {
				best, bestAddr = xv, dr.IsAddr
				continue
			}
			if bestIsInstr && defBlock != nil {
				if bi.Block().Dominates(defBlock) {
					best, bestAddr = xv, dr.IsAddr
				}
			}
		}
	}
	if best == nil {
		return TV{}, false
	}
	if bestAddr {
		pl := fr.place(best)
		return TV{fr.load(pl, x.st), pl.Type}, true
	}
	if _, ok := fr.vals[best]; !ok {
		if _, isConst := best.(*ssa.Const); !isConst {
			return TV{}, false
		}
	}
	if os.Getenv("EVDEBUG") != "" {
		fmt.Fprintf(os.Stderr, "lookupLocal %s -> %s = %s\n", name, best.Name(), fr.val(best).S)
	}
	return TV{fr.val(best), best.Type()}, true
}

// lookupLocalAtExit: the value of a source-level variable when the function returns. Each return has its own
// reaching definition: the last reference to the variable (go/ssa DebugRef) in the deepest block dominating the
// return. The per-return values are tied to one symbol under the return guards; a return the variable does not
// reach leaves the symbol unconstrained there.
func (fr *Frame) lookupLocalAtExit(name string, x *EvalCtx) (TV, bool) {
	c := fr.c
	if fr.exitLocals == nil {
		fr.exitLocals = map[string]TV{}
	}
	type cand struct {
		v    ssa.Value
		addr bool
	}
	perRet := make([]*cand, len(fr.rets))
	var typ types.Type
	found := false
	for ri, r := range fr.rets {
		var best *cand
		var bestBlk *ssa.BasicBlock
		for _, b := range fr.fn.Blocks {
			if !b.Dominates(r.blk) {
				continue
			}
			for _, ins := range b.Instrs {
				dr, ok := ins.(*ssa.DebugRef)
				if !ok {
					continue
				}
				obj := dr.Object()
				if obj == nil || obj.Name() != name {
					continue
				}
				if _, isVar := obj.(*types.Var); !isVar {
					continue
				}
				if bestBlk == nil || bestBlk.Dominates(b) {
					best, bestBlk = &cand{dr.X, dr.IsAddr}, b
				}
			}
		}
		if best != nil {
			if best.addr {
				// address-taken variable: its place is read in the exit state (one cell for all returns)
				pl := fr.place(best.v)
				return TV{fr.load(pl, x.st), pl.Type}, true
			}
			if _, ok := fr.vals[best.v]; !ok {
				if _, isConst := best.v.(*ssa.Const); !isConst {
					best = nil
				}
			}
		}
		if best != nil {
			perRet[ri] = best
			typ = best.v.Type()
			found = true
		}
	}
	if !found {
		return TV{}, false
	}
	if tv, ok := fr.exitLocals[name]; ok {
		return tv, true
	}
	sym := c.fresh("exit_"+sanitize(name), c.sortOf(typ))
	for ri, r := range fr.rets {
		if perRet[ri] != nil && types.Identical(perRet[ri].v.Type(), typ) {
			c.assume(r.guard, Eq(sym, fr.val(perRet[ri].v)))
		}
	}
	tv := TV{sym, typ}
	fr.exitLocals[name] = tv
	return tv, true
}

// ---------------------------------------------------------------------------
// instructions

func (fr *Frame) encodeInstr(ins ssa.Instruction, at Term, st *State) {
	c := fr.c
	defer func() {
		if r := recover(); r != nil {
			if ee, ok := r.(evalError); ok {
				c.errorf("%s: %s: %s", funcKey(fr.fn), ins, ee.msg)
				return
			}
			panic(r)
		}
	}()
	b := ins.Block()
	switch x := ins.(type) {
	case *ssa.DebugRef:
	case *ssa.Alloc:
		fr.encodeAlloc(x, at, st)
	case *ssa.FieldAddr:
		pt := x.X.Type().Underlying().(*types.Pointer).Elem()
		switch x.X.(type) {
		case *ssa.FreeVar, *ssa.Global:
			fr.places[x.X] = fr.place(x.X)
		}
		if base, ok := fr.places[x.X]; ok && base.Kind == "cell" {
			si := c.structInfoOf(pt)
			fr.places[x] = &Place{Kind: "cellfield", Heap: base.Heap, Sort: si.fields[x.Field].sort, Type: pt, Field: x.Field}
			return
		}
		if base, ok := fr.places[x.X]; ok && base.Kind == "cellfield" {
			si := c.structInfoOf(pt)
			fr.places[x] = &Place{Kind: "cellfield", Heap: base.Heap, Sort: si.fields[x.Field].sort, Type: pt, Field: x.Field, Outer: base}
			return
		}
		var ref Term
		if base, ok := fr.places[x.X]; ok && base.Kind == "struct" {
			ref = base.Ref
		} else {
			ref = fr.val(x.X)
		}
		c.safe("nil-deref", at, Not(Eq(ref, IntLit(0))), fmt.Sprintf("%s is not nil at field access .%s", x.X.Name(), pt.Underlying().(*types.Struct).Field(x.Field).Name()))
		heap, fs, ft := c.fieldHeap(pt, x.Field)
		fr.places[x] = &Place{Kind: "field", Heap: heap, Ref: ref, Sort: fs, Type: ft}
	case *ssa.IndexAddr:
		fr.encodeIndexAddr(x, at, st)
	case *ssa.UnOp:
		fr.encodeUnOp(x, at, st)
	case *ssa.BinOp:
		fr.vals[x] = fr.encodeBinOp(x)
	case *ssa.Store:
		pl := fr.place(x.Addr)
		if pl.Kind == "struct" || pl.Kind == "box" {
			c.safe("nil-deref", at, Not(Eq(pl.Ref, IntLit(0))), "store through non-nil pointer")
		}
		if _, isPtr := x.Val.Type().Underlying().(*types.Pointer); isPtr {
			if _, sp := isStructPtr(x.Val.Type()); !sp {
				if _, has := fr.places[x.Val]; has {
					c.errorf("%s: storing address %s into memory is not supported", funcKey(fr.fn), x.Val.Name())
					return
				}
			}
		}
		fr.store(pl, st, fr.val(x.Val))
	case *ssa.MakeMap:
		ref := c.allocRef(st)
		dom, _, ks, _ := c.mapHeaps(x.Type())
		d := c.get(st, dom)
		c.set(st, dom, Store(d, ref, Term{fmt.Sprintf("((as const %s) false)", ArraySort(ks, SBool)), ArraySort(ks, SBool)}))
		fr.vals[x] = ref
	case *ssa.MapUpdate:
		m := fr.val(x.Map)
		c.safe("nil-map-write", at, Not(Eq(m, IntLit(0))), "assignment to entry in non-nil map")
		dom, val, ks, vs := c.mapHeaps(x.Map.Type())
		k := fr.val(x.Key)
		d := c.get(st, dom)
		c.set(st, dom, Store(d, m, Store(Select(d, m, ArraySort(ks, SBool)), k, True)))
		if vs != SUnit {
			v := c.get(st, val)
			c.set(st, val, Store(v, m, Store(Select(v, m, ArraySort(ks, vs)), k, fr.val(x.Value))))
		}
	case *ssa.Lookup:
		fr.encodeLookup(x, at, st)
	case *ssa.Range:
		if _, ok := x.X.Type().Underlying().(*types.Map); !ok {
			c.errorf("%s: range over %s is not supported", funcKey(fr.fn), x.X.Type())
			return
		}
		_, _, ks, _ := c.mapHeaps(x.X.Type())
		vname := "V_" + fr.id + sanitize(funcKey(fr.fn)) + "_" + x.Name()
		c.heapVar(vname, ArraySort(ks, SBool))
		st.h[vname] = Term{fmt.Sprintf("((as const %s) false)", ArraySort(ks, SBool)), ArraySort(ks, SBool)}
		fr.ranges[x] = &rangeRec{mapTerm: fr.val(x.X), mapType: x.X.Type(), visited: vname, keySort: ks}
	case *ssa.Next:
		fr.encodeNext(x, at, st)
	case *ssa.Extract:
		tup, ok := fr.tuples[x.Tuple]
		if !ok || x.Index >= len(tup) {
			c.errorf("%s: extract from unknown tuple %s", funcKey(fr.fn), x.Tuple.Name())
			fr.vals[x] = c.fresh("undef", c.sortOf(x.Type()))
			return
		}
		fr.vals[x] = tup[x.Index]
	case *ssa.Phi:
	case *ssa.Call:
		fr.encodeCall(x, x.Common(), at, st)
	case *ssa.MakeClosure:
		fr.closures[x] = x
		name := "fn_" + sanitize(funcKey(x.Fn.(*ssa.Function)))
		c.declare(name, SInt)
		fr.vals[x] = Term{name, SInt}
		c.assert(Not(Eq(fr.vals[x], IntLit(0))))
	case *ssa.MakeInterface:
		fr.encodeMakeInterface(x)
	case *ssa.MakeSlice:
		arr := c.allocRef(st)
		elemT := x.Type().Underlying().(*types.Slice).Elem()
		heap, es := c.elemHeap(elemT)
		ln := fr.val(x.Len)
		cp := fr.val(x.Cap)
		c.safe("makeslice", at, And(Le(IntLit(0), ln), Le(ln, cp)), "make: 0 <= len <= cap")
		zero := c.zero(elemT)
		h := c.get(st, heap)
		c.set(st, heap, Store(h, arr, Term{fmt.Sprintf("((as const %s) %s)", ArraySort(SInt, es), zero.S), ArraySort(SInt, es)}))
		fr.vals[x] = Term{app("mk-slice", arr, IntLit(0), ln, cp), SSlice}
	case *ssa.Slice:
		fr.encodeSlice(x, at, st)
	case *ssa.Field:
		si := c.structInfoOf(x.X.Type())
		f := si.fields[x.Field]
		fr.vals[x] = Term{app(string(si.sort)+"_"+f.name, fr.val(x.X)), f.sort}
	case *ssa.ChangeType:
		fr.vals[x] = fr.val(x.X)
	case *ssa.ChangeInterface:
		v := fr.val(x.X)
		if v.Sort == SInt && c.sortOf(x.Type()) == SAny {
			v = Term{app(c.boxCtor(x.X.Type()), v), SAny}
		}
		fr.vals[x] = v
	case *ssa.Convert:
		fr.encodeConvert(x, at, st)
	case *ssa.TypeAssert:
		c.errorf("%s: type assertion not supported", funcKey(fr.fn))
		fr.vals[x] = c.fresh("undef", c.sortOf(x.Type()))
	case *ssa.If:
		cond := fr.val(x.Cond)
		out0 := st
		out1 := st.clone()
		fr.addEdge(b, b.Succs[0], And(at, cond), out0)
		fr.addEdge(b, b.Succs[1], And(at, Not(cond)), out1)
	case *ssa.Jump:
		fr.addEdge(b, b.Succs[0], at, st)
	case *ssa.Return:
		var vals []Term
		for _, r := range x.Results {
			vals = append(vals, fr.val(r))
		}
		fr.rets = append(fr.rets, retRec{blk: b, guard: at, vals: vals, st: st})
	case *ssa.Panic:
		c.safe("panic", at, False, "explicit panic is unreachable")
	case *ssa.Defer:
		pushed := c.fresh("pushed_"+fr.id, SBool)
		c.assert(Eq(pushed, at))
		fr.defers = append(fr.defers, &deferRec{instr: x, pushed: pushed})
	case *ssa.RunDefers:
		for i := len(fr.defers) - 1; i >= 0; i-- {
			d := fr.defers[i]
			// the deferred call runs iff it was pushed on this path
			fr.encodeDeferred(d, at, st)
		}
	default:
		c.errorf("%s: unsupported instruction %T: %s", funcKey(fr.fn), ins, ins)
		if v, ok := ins.(ssa.Value); ok {
			fr.vals[v] = c.fresh("undef", c.sortOf(v.Type()))
		}
	}
}

func (fr *Frame) encodeDeferred(d *deferRec, at Term, st *State) {
	// run the call under guard at ∧ pushed; merge states
	c := fr.c
	guard := And(at, d.pushed)
	alt := st.clone()
	fr.encodeCall(nil, d.instr.Common(), guard, alt)
	// merge alt (executed) with st (skipped)
	keys := map[string]bool{}
	for k := range alt.h {
		keys[k] = true
	}
	for _, k := range sortedKeysOf(keys) {
		a := c.get(alt, k)
		b := c.get(st, k)
		if a.S == b.S {
			continue
		}
		sym := c.fresh(k, c.heapSorts[k])
		c.assert(Eq(sym, Ite(d.pushed, a, b)))
		st.h[k] = sym
	}
}

func (fr *Frame) encodeAlloc(x *ssa.Alloc, at Term, st *State) {
	c := fr.c
	elem := x.Type().Underlying().(*types.Pointer).Elem()
	if _, ok := isStructPtr(x.Type()); ok && localStructAlloc(x) {
		name := fr.localCellName(x)
		c.cellVar(name, elem)
		st.h[name] = c.zero(elem)
		fr.places[x] = &Place{Kind: "cell", Heap: name, Sort: c.sortOf(elem), Type: elem}
		return
	}
	if _, ok := isStructPtr(x.Type()); ok {
		ref := c.allocRef(st)
		si := c.structInfoOf(elem)
		for i, f := range si.fields {
			heap, _, _ := c.fieldHeap(elem, i)
			c.set(st, heap, Store(c.get(st, heap), ref, c.zero(f.typ)))
		}
		fr.vals[x] = ref
		return
	}
	if arr, ok := elem.Underlying().(*types.Array); ok {
		ref := c.allocRef(st)
		heap, es := c.elemHeap(arr.Elem())
		zero := c.zero(arr.Elem())
		c.set(st, heap, Store(c.get(st, heap), ref, Term{fmt.Sprintf("((as const %s) %s)", ArraySort(SInt, es), zero.S), ArraySort(SInt, es)}))
		fr.vals[x] = ref
		fr.arrayPtr[x] = true
		return
	}
	// scalar cell; does the address escape?
	escapes := false
	for _, ref := range *x.Referrers() {
		switch r := ref.(type) {
		case *ssa.Store:
			if r.Val == x {
				escapes = true
			}
		case *ssa.UnOp, *ssa.DebugRef, *ssa.MakeClosure:
		case *ssa.Call:
			if !isHandledOutParamCall(r.Common()) {
				escapes = true
			}
		case *ssa.Defer:
		default:
			escapes = true
		}
	}
	if escapes {
		ref := c.allocRef(st)
		heap, _ := c.boxHeap(elem)
		c.set(st, heap, Store(c.get(st, heap), ref, c.zero(elem)))
		fr.vals[x] = ref
		return
	}
	name := fr.localCellName(x)
	c.cellVar(name, elem)
	st.h[name] = c.zero(elem)
	fr.places[x] = &Place{Kind: "cell", Heap: name, Sort: c.sortOf(elem), Type: elem}
}

func (fr *Frame) localCellName(x *ssa.Alloc) string {
	name := "L_" + fr.id + sanitize(funcKey(fr.fn)) + "_" + x.Name()
	if x.Comment != "" {
		name += "_" + sanitize(x.Comment)
	}
	return name
}

// fieldAddrLocal: a field address that is only loaded from, stored to, or refined to a nested field.
func fieldAddrLocal(r *ssa.FieldAddr) bool {
	for _, rr := range *r.Referrers() {
		switch u := rr.(type) {
		case *ssa.UnOp, *ssa.DebugRef:
		case *ssa.Store:
			if u.Val == ssa.Value(r) {
				return false
			}
		case *ssa.FieldAddr:
			if _, ok := u.X.Type().Underlying().(*types.Pointer).Elem().Underlying().(*types.Struct); !ok || !fieldAddrLocal(u) {
				return false
			}
		default:
			return false
		}
	}
	return true
}

// localStructAlloc: the address of a struct allocation never leaves the function: it is only used
// for field access, whole loads/stores, and as the target of json.Unmarshal.
func localStructAlloc(x *ssa.Alloc) bool {
	for _, ref := range *x.Referrers() {
		switch r := ref.(type) {
		case *ssa.FieldAddr:
			if !fieldAddrLocal(r) {
				return false
			}
		case *ssa.UnOp, *ssa.DebugRef, *ssa.MakeClosure:
		case *ssa.Store:
			if r.Val == ssa.Value(x) {
				return false
			}
		case *ssa.MakeInterface:
			for _, rr := range *r.Referrers() {
				call, ok := rr.(*ssa.Call)
				if !ok {
					if _, isDbg := rr.(*ssa.DebugRef); isDbg {
						continue
					}
					return false
				}
				callee := call.Common().StaticCallee()
				if callee == nil || callee.String() != "encoding/json.Unmarshal" {
					return false
				}
			}
		default:
			return false
		}
	}
	return true
}

func isHandledOutParamCall(cc *ssa.CallCommon) bool {
	callee := cc.StaticCallee()
	if callee == nil {
		return false
	}
	switch callee.String() {
	case "encoding/json.Unmarshal":
		return true
	}
	return false
}

func (fr *Frame) encodeIndexAddr(x *ssa.IndexAddr, at Term, st *State) {
	c := fr.c
	idx := fr.val(x.Index)
	switch u := x.X.Type().Underlying().(type) {
	case *types.Slice:
		sl := fr.val(x.X)
		heap, es := c.elemHeap(u.Elem())
		c.safe("index", at, And(Le(IntLit(0), idx), Lt(idx, slLen(sl))), fmt.Sprintf("index in range of %s", x.X.Name()))
		fr.places[x] = &Place{Kind: "elem", Heap: heap, Ref: slArr(sl), Idx: pos(slOff(sl), idx), Sort: es, Type: u.Elem()}
		if st2, ok := isStructValue(u.Elem()); ok {
			_ = st2
		}
	case *types.Pointer:
		arr := u.Elem().Underlying().(*types.Array)
		heap, es := c.elemHeap(arr.Elem())
		c.safe("index", at, And(Le(IntLit(0), idx), Lt(idx, IntLit(arr.Len()))), "array index in range")
		fr.places[x] = &Place{Kind: "elem", Heap: heap, Ref: fr.val(x.X), Idx: idx, Sort: es, Type: arr.Elem()}
	default:
		c.errorf("%s: IndexAddr on %s", funcKey(fr.fn), x.X.Type())
	}
}

func isStructValue(t types.Type) (*types.Struct, bool) {
	if isTimeType(t) {
		return nil, false
	}
	s, ok := t.Underlying().(*types.Struct)
	return s, ok
}

func (fr *Frame) encodeUnOp(x *ssa.UnOp, at Term, st *State) {
	c := fr.c
	switch x.Op {
	case token.MUL:
		pl := fr.place(x.X)
		if pl.Kind == "struct" || pl.Kind == "box" {
			c.safe("nil-deref", at, Not(Eq(pl.Ref, IntLit(0))), fmt.Sprintf("%s is not nil at dereference", x.X.Name()))
		}
		v := fr.load(pl, st)
		if strings.Contains(v.S, " ") {
			sym := c.fresh(fr.id+x.Name(), v.Sort)
			c.assert(Eq(sym, v))
			v = sym
		}
		fr.vals[x] = v
		fr.assumeAllocated(x.Type(), v, st)
	case token.NOT:
		fr.vals[x] = Not(fr.val(x.X))
	case token.SUB:
		fr.vals[x] = Term{app("-", fr.val(x.X)), SInt}
	default:
		c.errorf("%s: unary %s not supported", funcKey(fr.fn), x.Op)
		fr.vals[x] = c.fresh("undef", c.sortOf(x.Type()))
	}
}

// assumeAllocated: a reference read from memory (or received) is below nextRef and non-negative.
func (fr *Frame) assumeAllocated(t types.Type, v Term, st *State) {
	c := fr.c
	if isTimeType(t) {
		return
	}
	switch u := t.Underlying().(type) {
	case *types.Pointer, *types.Map:
		c.assert(And(Le(IntLit(0), v), Lt(v, c.nextRef(st))))
	case *types.Slice:
		c.assert(And(Le(IntLit(0), slArr(v)), Lt(slArr(v), c.nextRef(st)), Le(IntLit(0), slOff(v)), Le(IntLit(0), slLen(v)), Le(slLen(v), slCap(v)),
			Implies(Eq(slArr(v), IntLit(0)), Eq(slCap(v), IntLit(0)))))
	case *types.Struct:
		if u.NumFields() == 0 || strings.Contains(v.S, "!q") {
			return
		}
		si := c.structInfoOf(t)
		for _, f := range si.fields {
			switch f.typ.Underlying().(type) {
			case *types.Pointer, *types.Map, *types.Slice, *types.Struct:
				fr.assumeAllocated(f.typ, Term{app(string(si.sort)+"_"+f.name, v), f.sort}, st)
			}
		}
	}
}

func (fr *Frame) encodeBinOp(x *ssa.BinOp) Term {
	c := fr.c
	a, b := fr.val(x.X), fr.val(x.Y)
	xt := x.X.Type()
	switch x.Op {
	case token.EQL, token.NEQ:
		var eq Term
		if a.Sort == SSlice {
			// only comparison with nil is legal
			other := b
			this := a
			if kc, ok := x.X.(*ssa.Const); ok && kc.Value == nil {
				other, this = a, b
			}
			_ = other
			eq = Eq(slArr(this), IntLit(0))
		} else {
			eq = Term{app("=", a, b), SBool}
			if a.S == b.S {
				eq = True
			}
		}
		if x.Op == token.NEQ {
			return Not(eq)
		}
		return eq
	case token.LSS, token.LEQ, token.GTR, token.GEQ:
		op := map[token.Token]string{token.LSS: "<", token.LEQ: "<=", token.GTR: ">", token.GEQ: ">="}[x.Op]
		return Term{app(op, a, b), SBool}
	case token.ADD:
		if isStringType(xt) {
			return c.strConcat(a, b)
		}
		return Add(a, b)
	case token.SUB:
		return Sub(a, b)
	case token.MUL:
		return Term{app("*", a, b), SInt}
	case token.QUO:
		return Term{app("div", a, b), SInt}
	case token.REM:
		return Term{app("mod", a, b), SInt}
	case token.OR, token.AND, token.XOR, token.SHL, token.SHR, token.AND_NOT:
		if x.Op == token.OR {
			// a | 2^k for non-negative a
			for _, pair := range [][2]ssa.Value{{x.X, x.Y}, {x.Y, x.X}} {
				if k, ok := pair[1].(*ssa.Const); ok && k.Value != nil {
					if n := k.Int64(); n > 0 && n&(n-1) == 0 {
						other := fr.val(pair[0])
						return Ite(bitSet(other, n), other, Add(other, IntLit(n)))
					}
				}
			}
		}
		fn := "bit_" + map[token.Token]string{token.OR: "or", token.AND: "and", token.XOR: "xor", token.SHL: "shl", token.SHR: "shr", token.AND_NOT: "andnot"}[x.Op]
		c.declareFun(fn, []Sort{SInt, SInt}, SInt)
		return Term{app(fn, a, b), SInt}
	case token.LAND, token.LOR:
	}
	c.errorf("%s: binary %s not supported", funcKey(fr.fn), x.Op)
	return c.fresh("undef", c.sortOf(x.Type()))
}

// bitSet: bit log2(n) of the non-negative integer a is set (n a power of two)
func bitSet(a Term, n int64) Term {
	return Term{fmt.Sprintf("(= (mod (div %s %d) 2) 1)", a.S, n), SBool}
}

func (fr *Frame) encodeLookup(x *ssa.Lookup, at Term, st *State) {
	c := fr.c
	if _, ok := x.X.Type().Underlying().(*types.Map); !ok {
		// string index
		c.declareFun("strAt", []Sort{SInt, SInt}, SInt)
		s, i := fr.val(x.X), fr.val(x.Index)
		c.safe("index", at, And(Le(IntLit(0), i), Lt(i, Term{app("strLen", s), SInt})), "string index in range")
		fr.vals[x] = Term{app("strAt", s, i), SInt}
		return
	}
	m := fr.val(x.X)
	k := fr.val(x.Index)
	dom, val, ks, vs := c.mapHeaps(x.X.Type())
	has := Select(Select(c.get(st, dom), m, ArraySort(ks, SBool)), k, SBool)
	elemT := x.X.Type().Underlying().(*types.Map).Elem()
	var v Term
	if vs == SUnit {
		v = Term{"unit", SUnit}
	} else {
		v = Ite(has, Select(Select(c.get(st, val), m, ArraySort(ks, vs)), k, vs), c.zero(elemT))
	}
	sym := c.fresh(fr.id+x.Name(), v.Sort)
	c.assert(Eq(sym, v))
	fr.assumeAllocated(elemT, sym, st)
	if x.CommaOk {
		okSym := c.fresh(fr.id+x.Name()+"_ok", SBool)
		c.assert(Eq(okSym, has))
		fr.tuples[x] = []Term{sym, okSym}
		return
	}
	fr.vals[x] = sym
}

func (fr *Frame) encodeNext(x *ssa.Next, at Term, st *State) {
	c := fr.c
	if x.IsString {
		c.errorf("%s: range over string not supported", funcKey(fr.fn))
		return
	}
	rr, ok := fr.ranges[x.Iter]
	if !ok {
		c.errorf("%s: next on unknown iterator", funcKey(fr.fn))
		return
	}
	dom, val, ks, vs := c.mapHeaps(rr.mapType)
	elemT := rr.mapType.Underlying().(*types.Map).Elem()
	okT := c.fresh(fr.id+x.Name()+"_ok", SBool)
	k := c.fresh(fr.id+x.Name()+"_k", ks)
	domNow := Select(c.get(st, dom), rr.mapTerm, ArraySort(ks, SBool))
	V := c.get(st, rr.visited)
	c.assume(at, Implies(okT, And(Select(domNow, k, SBool), Not(Select(V, k, SBool)))))
	c.n++
	q := fmt.Sprintf("nk!%d", c.n)
	c.assume(at, Implies(Not(okT), Term{fmt.Sprintf("(forall ((%s %s)) (! (=> (select %s %s) (select %s %s)) :pattern ((select %s %s)) :pattern ((select %s %s))))",
		q, ks, domNow.S, q, V.S, q, domNow.S, q, V.S, q), SBool}))
	var v Term
	if vs == SUnit {
		v = Term{"unit", SUnit}
	} else {
		v = c.fresh(fr.id+x.Name()+"_v", vs)
		c.assert(Eq(v, Select(Select(c.get(st, val), rr.mapTerm, ArraySort(ks, vs)), k, vs)))
		fr.assumeAllocated(elemT, v, st)
	}
	nv := c.fresh(rr.visited, ArraySort(ks, SBool))
	c.assert(Eq(nv, Ite(okT, Store(V, k, True), V)))
	st.h[rr.visited] = nv
	fr.tuples[x] = []Term{okT, k, v}
}

func (fr *Frame) encodeMakeInterface(x *ssa.MakeInterface) {
	c := fr.c
	if isErrorType(x.Type()) {
		// concrete error value: opaque non-nil error
		e := c.fresh("err", SInt)
		c.assert(Not(Eq(e, IntLit(0))))
		fr.vals[x] = e
		return
	}
	ctor := c.boxCtor(x.X.Type())
	if _, isPlace := fr.places[x.X]; isPlace {
		// address of a local (json.Unmarshal target): the box carries no usable value
		fr.vals[x] = Term{app(ctor, IntLit(0)), SAny}
		return
	}
	fr.vals[x] = Term{app(ctor, fr.val(x.X)), SAny}
}

func (fr *Frame) encodeSlice(x *ssa.Slice, at Term, st *State) {
	c := fr.c
	var lo, hi Term
	hasLo, hasHi := x.Low != nil, x.High != nil
	if hasLo {
		lo = fr.val(x.Low)
	} else {
		lo = IntLit(0)
	}
	switch u := x.X.Type().Underlying().(type) {
	case *types.Slice:
		s := fr.val(x.X)
		if hasHi {
			hi = fr.val(x.High)
		} else {
			hi = slLen(s)
		}
		c.safe("slice-bounds", at, And(Le(IntLit(0), lo), Le(lo, hi), Le(hi, slCap(s))), "slice bounds in range")
		fr.vals[x] = Term{app("mk-slice", slArr(s), Add(slOff(s), lo), Sub(hi, lo), Sub(slCap(s), lo)), SSlice}
	case *types.Pointer:
		arr := u.Elem().Underlying().(*types.Array)
		n := IntLit(arr.Len())
		if hasHi {
			hi = fr.val(x.High)
		} else {
			hi = n
		}
		c.safe("slice-bounds", at, And(Le(IntLit(0), lo), Le(lo, hi), Le(hi, n)), "slice bounds in range")
		fr.vals[x] = Term{app("mk-slice", fr.val(x.X), lo, Sub(hi, lo), Sub(n, lo)), SSlice}
	case *types.Basic:
		s := fr.val(x.X)
		if hasHi {
			hi = fr.val(x.High)
		} else {
			hi = Term{app("strLen", s), SInt}
		}
		c.safe("slice-bounds", at, And(Le(IntLit(0), lo), Le(lo, hi), Le(hi, Term{app("strLen", s), SInt})), "string slice bounds in range")
		c.declareFun("strSlice", []Sort{SInt, SInt, SInt}, SInt)
		r := Term{app("strSlice", s, lo, hi), SInt}
		c.assert(Eq(Term{app("strLen", r), SInt}, Sub(hi, lo)))
		fr.vals[x] = r
	default:
		c.errorf("%s: slice of %s", funcKey(fr.fn), x.X.Type())
	}
}

func (fr *Frame) encodeConvert(x *ssa.Convert, at Term, st *State) {
	c := fr.c
	from, to := x.X.Type().Underlying(), x.Type().Underlying()
	v := fr.val(x.X)
	fb, fok := from.(*types.Basic)
	tb, tok := to.(*types.Basic)
	switch {
	case fok && tok && (fb.Info()&types.IsString != 0) == (tb.Info()&types.IsString != 0):
		fr.vals[x] = v
	case isByteSlice(x.X.Type()) && tok && tb.Info()&types.IsString != 0:
		fr.vals[x] = c.bytesContent(st, v)
	case fok && fb.Info()&types.IsString != 0 && isByteSlice(x.Type()):
		arr := c.allocRef(st)
		heap, _ := c.elemHeap(types.Typ[types.Uint8])
		inner := c.fresh("bytes", ArraySort(SInt, SInt))
		c.set(st, heap, Store(c.get(st, heap), arr, inner))
		ln := Term{app("strLen", v), SInt}
		sl := Term{app("mk-slice", arr, IntLit(0), ln, ln), SSlice}
		c.assert(Eq(c.bytesContent(st, sl), v))
		fr.vals[x] = sl
	default:
		c.errorf("%s: conversion %s -> %s not supported", funcKey(fr.fn), x.X.Type(), x.Type())
		fr.vals[x] = c.fresh("undef", c.sortOf(x.Type()))
	}
}

// bytesContent abstracts the content of a byte slice to a string value.
func (c *Enc) bytesContent(st *State, sl Term) Term {
	heap, _ := c.elemHeap(types.Typ[types.Uint8])
	c.declareFun("bcontent", []Sort{ArraySort(SInt, SInt), SInt, SInt}, SInt)
	inner := Select(c.get(st, heap), slArr(sl), ArraySort(SInt, SInt))
	t := Term{app("bcontent", inner, slOff(sl), slLen(sl)), SInt}
	return t
}

// ---------------------------------------------------------------------------
// write sets

// instrWrites adds the heap variables instruction ins may write.
func (fr *Frame) instrWrites(ins ssa.Instruction, ws map[string]bool) {
	c := fr.c
	switch x := ins.(type) {
	case *ssa.Store:
		fr.addrWrites(x.Addr, ws)
	case *ssa.MapUpdate:
		d, v, _, _ := c.mapHeaps(x.Map.Type())
		ws[d], ws[v] = true, true
	case *ssa.MakeMap:
		d, _, _, _ := c.mapHeaps(x.Type())
		ws[d] = true
		ws["nextRef"] = true
	case *ssa.MakeSlice:
		h, _ := c.elemHeap(x.Type().Underlying().(*types.Slice).Elem())
		ws[h] = true
		ws["nextRef"] = true
	case *ssa.Convert:
		if isByteSlice(x.Type()) {
			h, _ := c.elemHeap(types.Typ[types.Uint8])
			ws[h] = true
			ws["nextRef"] = true
		}
	case *ssa.Alloc:
		ws["nextRef"] = true
		c.heapVar("nextRef", SInt)
		elem := x.Type().Underlying().(*types.Pointer).Elem()
		if _, ok := isStructPtr(x.Type()); ok && localStructAlloc(x) {
			name := fr.localCellName(x)
			c.cellVar(name, elem)
			ws[name] = true
		} else if _, ok := isStructPtr(x.Type()); ok {
			si := c.structInfoOf(elem)
			for i := range si.fields {
				h, _, _ := c.fieldHeap(elem, i)
				ws[h] = true
			}
		} else if arr, ok := elem.Underlying().(*types.Array); ok {
			h, _ := c.elemHeap(arr.Elem())
			ws[h] = true
		} else {
			name := "L_" + fr.id + sanitize(funcKey(fr.fn)) + "_" + x.Name()
			if x.Comment != "" {
				name += "_" + sanitize(x.Comment)
			}
			c.cellVar(name, elem)
			ws[name] = true
			h, _ := c.boxHeap(elem)
			ws[h] = true
		}
	case *ssa.Next:
		if rr, ok := fr.ranges[x.Iter]; ok {
			ws[rr.visited] = true
		}
	case *ssa.Range:
		// visited set is (re)initialised
		if _, ok := x.X.Type().Underlying().(*types.Map); ok {
			_, _, ks, _ := c.mapHeaps(x.X.Type())
			vname := "V_" + fr.id + sanitize(funcKey(fr.fn)) + "_" + x.Name()
			c.heapVar(vname, ArraySort(ks, SBool))
			ws[vname] = true
		}
	case *ssa.Call:
		fr.callWrites(x.Common(), ws)
	case *ssa.Defer:
		fr.callWrites(x.Common(), ws)
	}
}

func (fr *Frame) addrWrites(addr ssa.Value, ws map[string]bool) {
	c := fr.c
	switch a := addr.(type) {
	case *ssa.FieldAddr:
		pt := a.X.Type().Underlying().(*types.Pointer).Elem()
		if al, ok := a.X.(*ssa.Alloc); ok && localStructAlloc(al) {
			name := fr.localCellName(al)
			c.cellVar(name, pt)
			ws[name] = true
			return
		}
		// a field of a struct that lives in a cell (captured variable, package variable, or a struct-valued
		// field of one): the store rewrites the cell, not a field heap
		switch root := a.X.(type) {
		case *ssa.FreeVar, *ssa.Global:
			fr.addrWrites(root, ws)
			return
		case *ssa.FieldAddr:
			r := ssa.Value(root)
			for {
				fa, ok := r.(*ssa.FieldAddr)
				if !ok {
					break
				}
				r = fa.X
			}
			switch rr := r.(type) {
			case *ssa.FreeVar, *ssa.Global:
				fr.addrWrites(rr, ws)
				return
			case *ssa.Alloc:
				if localStructAlloc(rr) {
					fr.addrWrites(rr, ws)
					return
				}
			}
		}
		h, _, _ := c.fieldHeap(pt, a.Field)
		ws[h] = true
	case *ssa.IndexAddr:
		switch u := a.X.Type().Underlying().(type) {
		case *types.Slice:
			h, _ := c.elemHeap(u.Elem())
			ws[h] = true
		case *types.Pointer:
			h, _ := c.elemHeap(u.Elem().Underlying().(*types.Array).Elem())
			ws[h] = true
		}
	case *ssa.Global:
		ws[c.cellVar("GL_"+a.Name(), a.Type().(*types.Pointer).Elem())] = true
	case *ssa.FreeVar:
		pl := fr.place(a)
		ws[pl.Heap] = true
	case *ssa.Alloc:
		if pl, ok := fr.places[a]; ok {
			ws[pl.Heap] = true
			return
		}
		elem := a.Type().Underlying().(*types.Pointer).Elem()
		if _, ok := isStructPtr(a.Type()); ok && localStructAlloc(a) {
			name := fr.localCellName(a)
			c.cellVar(name, elem)
			ws[name] = true
			return
		}
		if st, ok := isStructPtr(a.Type()); ok {
			si := c.structInfoOf(st)
			for i := range si.fields {
				h, _, _ := c.fieldHeap(st, i)
				ws[h] = true
			}
			return
		}
		name := "L_" + fr.id + sanitize(funcKey(fr.fn)) + "_" + a.Name()
		if a.Comment != "" {
			name += "_" + sanitize(a.Comment)
		}
		c.cellVar(name, elem)
		ws[name] = true
		h, _ := c.boxHeap(elem)
		ws[h] = true
	default:
		pt, ok := addr.Type().Underlying().(*types.Pointer)
		if !ok {
			return
		}
		if st, ok := isStructPtr(addr.Type()); ok {
			si := c.structInfoOf(st)
			for i := range si.fields {
				h, _, _ := c.fieldHeap(st, i)
				ws[h] = true
			}
			return
		}
		h, _ := c.boxHeap(pt.Elem())
		ws[h] = true
	}
}
