package main

import (
	"fmt"
	"go/constant"
	"go/types"
	"strings"

	"golang.org/x/tools/go/ssa"
)

// TV is a typed term. Ty may be nil for spec-only values (then Sort decides).
type TV struct {
	T  Term
	Ty types.Type
}

type EvalCtx struct {
	c        *Enc
	fr       *Frame
	ownerFn  *ssa.Function // the function whose contract is being evaluated when it is not fr.fn (call sites)
	st       *State
	old      *State
	vars     map[string]TV
	visited  string // heap var of the visited set of the current loop ("" if none)
	visKey   Sort
	depth    int
	inOld    bool
	atEntry  bool
	entrySt  *State
	stepMode bool
	resolve  func(name string, x *EvalCtx) (TV, bool) // local variable resolver (loop invariants)
}

func (x *EvalCtx) with(vars map[string]TV) *EvalCtx {
	n := *x
	n.vars = map[string]TV{}
	for k, v := range x.vars {
		n.vars[k] = v
	}
	for k, v := range vars {
		n.vars[k] = v
	}
	return &n
}

type evalError struct{ msg string }

func (e evalError) Error() string { return e.msg }

func efail(format string, args ...interface{}) {
	panic(evalError{fmt.Sprintf(format, args...)})
}

// evalBool evaluates a clause to a Bool term; errors are reported on the Enc.
func (x *EvalCtx) evalBool(e *Expr) (t Term, ok bool) {
	defer func() {
		if r := recover(); r != nil {
			if ee, isEval := r.(evalError); isEval {
				x.c.errorf("contract expression %s: %s", e.String(), ee.msg)
				t, ok = True, false
				return
			}
			panic(r)
		}
	}()
	tv := x.eval(e)
	if tv.T.Sort != SBool {
		efail("not boolean")
	}
	return tv.T, true
}

func (x *EvalCtx) evalAny(e *Expr) (tv TV, ok bool) {
	defer func() {
		if r := recover(); r != nil {
			if ee, isEval := r.(evalError); isEval {
				x.c.errorf("contract expression %s: %s", e.String(), ee.msg)
				ok = false
				return
			}
			panic(r)
		}
	}()
	return x.eval(e), true
}

var tyString = types.Typ[types.String]
var tyInt = types.Typ[types.Int]
var tyBool = types.Typ[types.Bool]

func (x *EvalCtx) eval(e *Expr) TV {
	c := x.c
	switch e.Op {
	case "int":
		return TV{IntLit(e.Int), tyInt}
	case "str":
		return TV{c.strLit(e.Str), tyString}
	case "bool":
		if e.Name == "true" {
			return TV{True, tyBool}
		}
		return TV{False, tyBool}
	case "nil":
		return TV{IntLit(0), types.Typ[types.UntypedNil]}
	case "ident":
		return x.evalIdent(e.Name)
	case "old":
		n := *x
		n.st = x.old
		n.inOld = true
		return n.eval(e.Args[0])
	case "call":
		if e.Name == "atentry" {
			// value of an expression in the state just before the enclosing loop was entered
			if x.entrySt == nil {
				efail("atentry() outside a loop clause")
			}
			n := *x
			n.st = x.entrySt
			n.atEntry = true
			return n.eval(e.Args[0])
		}
		return x.evalCall(e)
	case "unary":
		a := x.eval(e.Args[0])
		if e.Name == "!" {
			if a.T.Sort != SBool {
				efail("! on non-bool")
			}
			return TV{Not(a.T), tyBool}
		}
		return TV{Term{app("-", a.T), SInt}, tyInt}
	case "binary":
		return x.evalBinary(e)
	case "sel":
		return x.evalSel(e)
	case "index":
		return x.evalIndex(e)
	case "quant":
		return x.evalQuant(e)
	}
	efail("unsupported expression %s", e.Op)
	return TV{}
}

func (x *EvalCtx) evalIdent(name string) TV {
	c := x.c
	if v, ok := x.vars[name]; ok {
		return v
	}
	if x.resolve != nil {
		if v, ok := x.resolve(name, x); ok {
			return v
		}
		// the contract may use a name the code no longer has: a pure rename is followed (see renames.go)
		if x.fr != nil {
			if _, isGhost := c.eng.cf.Ghosts[name]; !isGhost && c.eng.tpkg.Scope().Lookup(name) == nil {
				owner := x.fr.fn
				if x.ownerFn != nil {
					owner = x.ownerFn
				}
				for _, cand := range c.eng.renamedCandidates(owner, name) {
					if v, ok := x.resolve(cand, x); ok {
						c.note(fmt.Sprintf("%s: contract name `%s` resolved to the renamed variable `%s`", funcKey(owner), name, cand))
						return v
					}
				}
				if owner == x.fr.fn {
					if v := c.eng.inlinedAllocation(owner, name); v != nil {
						if _, known := x.fr.vals[v]; known {
							c.note(fmt.Sprintf("%s: contract name `%s` resolved to the only %s allocated in the function (the variable was inlined)", funcKey(owner), name, v.Type()))
							return TV{x.fr.val(v), v.Type()}
						}
					}
				}
			}
		}
	}
	// ghost_<name>: the ghost variable <name> even when a parameter or local has the same name
	if strings.HasPrefix(name, "ghost_") {
		if cell, ok := c.ghostCell(strings.TrimPrefix(name, "ghost_")); ok {
			g := c.eng.cf.Ghosts[strings.TrimPrefix(name, "ghost_")]
			ty, _ := c.eng.resolveType(g.Type)
			return TV{c.get(x.st, cell), ty}
		}
	}
	// callback bookkeeping of higher-order contracts
	if name == "called" {
		cell := c.cellVar("CB_called", tyBool)
		return TV{c.get(x.st, cell), tyBool}
	}
	if name == "fnret" {
		et := types.Universe.Lookup("error").Type()
		cell := c.cellVar("CB_ret", et)
		return TV{c.get(x.st, cell), et}
	}
	// ghost variable
	if g, ok := c.eng.cf.Ghosts[name]; ok {
		ty, err := c.eng.resolveType(g.Type)
		if err != nil {
			efail("%v", err)
		}
		cell := c.cellVar("G_"+name, ty)
		return TV{c.get(x.st, cell), ty}
	}
	// package-level constant or variable
	obj := c.eng.tpkg.Scope().Lookup(name)
	switch o := obj.(type) {
	case *types.Const:
		switch o.Val().Kind() {
		case constant.String:
			return TV{c.strLit(constant.StringVal(o.Val())), o.Type()}
		case constant.Int:
			n, _ := constant.Int64Val(o.Val())
			return TV{IntLit(n), o.Type()}
		case constant.Bool:
			if constant.BoolVal(o.Val()) {
				return TV{True, tyBool}
			}
			return TV{False, tyBool}
		}
	case *types.Var:
		c.initFacts()
		cell := c.cellVar("GL_"+name, o.Type())
		return TV{c.get(x.st, cell), o.Type()}
	}
	efail("unknown identifier %s", name)
	return TV{}
}

func (x *EvalCtx) evalBinary(e *Expr) TV {
	c := x.c
	switch e.Name {
	case "&&", "||", "==>", "<==>":
		a := x.eval(e.Args[0])
		b := x.eval(e.Args[1])
		if a.T.Sort != SBool || b.T.Sort != SBool {
			efail("%s on non-bool operands (%s: %s, %s: %s)", e.Name, e.Args[0], a.T.Sort, e.Args[1], b.T.Sort)
		}
		switch e.Name {
		case "&&":
			return TV{And(a.T, b.T), tyBool}
		case "||":
			return TV{Or(a.T, b.T), tyBool}
		case "==>":
			return TV{Implies(a.T, b.T), tyBool}
		default:
			return TV{Term{app("=", a.T, b.T), SBool}, tyBool}
		}
	case "==", "!=":
		a := x.eval(e.Args[0])
		b := x.eval(e.Args[1])
		var eq Term
		switch {
		case a.T.Sort == SSlice && e.Args[1].Op == "nil":
			eq = Eq(Term{app("sl-arr", a.T), SInt}, IntLit(0))
		case b.T.Sort == SSlice && e.Args[0].Op == "nil":
			eq = Eq(Term{app("sl-arr", b.T), SInt}, IntLit(0))
		case a.T.Sort == SAny && e.Args[1].Op == "nil":
			eq = Eq(a.T, Term{"any_nil", SAny})
		default:
			if a.T.Sort != b.T.Sort {
				efail("comparison of different sorts %s and %s", a.T.Sort, b.T.Sort)
			}
			eq = Term{app("=", a.T, b.T), SBool}
		}
		if e.Name == "!=" {
			return TV{Not(eq), tyBool}
		}
		return TV{eq, tyBool}
	case "<", "<=", ">", ">=":
		a := x.eval(e.Args[0])
		b := x.eval(e.Args[1])
		if a.T.Sort != SInt || b.T.Sort != SInt {
			efail("ordering on non-int sorts")
		}
		return TV{Term{app(e.Name, a.T, b.T), SBool}, tyBool}
	case "+", "-", "*":
		a := x.eval(e.Args[0])
		b := x.eval(e.Args[1])
		if a.T.Sort != SInt || b.T.Sort != SInt {
			efail("arithmetic on non-int sorts")
		}
		if e.Name == "+" && a.Ty != nil && isStringType(a.Ty) {
			return TV{c.strConcat(a.T, b.T), a.Ty}
		}
		return TV{Term{app(e.Name, a.T, b.T), SInt}, tyInt}
	}
	efail("unknown operator %s", e.Name)
	return TV{}
}

func isStringType(t types.Type) bool {
	b, ok := t.Underlying().(*types.Basic)
	return ok && b.Info()&types.IsString != 0
}

func (c *Enc) strConcat(a, b Term) Term {
	c.declareFun("strConcat", []Sort{SInt, SInt}, SInt)
	return Term{app("strConcat", a, b), SInt}
}

func (x *EvalCtx) evalSel(e *Expr) TV {
	c := x.c
	base := x.eval(e.Args[0])
	if base.Ty == nil {
		efail("selector on untyped value")
	}
	t := base.Ty
	if p, ok := t.Underlying().(*types.Pointer); ok {
		st, ok := p.Elem().Underlying().(*types.Struct)
		if !ok {
			efail("selector on pointer to non-struct")
		}
		idx := fieldIndex(st, e.Name)
		if idx < 0 {
			efail("no field %s in %s", e.Name, p.Elem())
		}
		heap, fs, ft := c.fieldHeap(p.Elem(), idx)
		return TV{Select(c.get(x.st, heap), base.T, fs), ft}
	}
	if st, ok := t.Underlying().(*types.Struct); ok {
		idx := fieldIndex(st, e.Name)
		if idx < 0 {
			efail("no field %s in %s", e.Name, t)
		}
		si := c.structInfoOf(t)
		f := si.fields[idx]
		return TV{Term{app(string(si.sort)+"_"+f.name, base.T), f.sort}, f.typ}
	}
	efail("selector .%s on %s", e.Name, t)
	return TV{}
}

func fieldIndex(st *types.Struct, name string) int {
	for i := 0; i < st.NumFields(); i++ {
		if st.Field(i).Name() == name {
			return i
		}
	}
	return -1
}

func (x *EvalCtx) evalIndex(e *Expr) TV {
	c := x.c
	base := x.eval(e.Args[0])
	idx := x.eval(e.Args[1])
	if base.Ty == nil {
		efail("index on untyped value")
	}
	switch u := base.Ty.Underlying().(type) {
	case *types.Map:
		_, val, ks, vs := c.mapHeaps(base.Ty)
		if idx.T.Sort != ks {
			efail("map key sort mismatch")
		}
		if vs == SUnit {
			return TV{Term{"unit", SUnit}, u.Elem()}
		}
		return TV{Select(Select(c.get(x.st, val), base.T, ArraySort(ks, vs)), idx.T, vs), u.Elem()}
	case *types.Slice:
		heap, es := c.elemHeap(u.Elem())
		return TV{c.sliceElem(x.st, heap, es, base.T, idx.T), u.Elem()}
	}
	efail("index on %s", base.Ty)
	return TV{}
}

func (c *Enc) sliceElem(st *State, heap string, es Sort, sl Term, i Term) Term {
	arr := Term{app("sl-arr", sl), SInt}
	off := Term{app("sl-off", sl), SInt}
	// a literal window (mk-slice A (+ O F) n n) of another slice: element i is element F+i of the base window, so
	// that its position has the same shape idx(O, ·) as every other access to the base slice (trigger matching)
	if head, args, ok := splitTop(sl.S); ok && head == "mk-slice" && len(args) == 4 {
		arr = Term{args[0], SInt}
		off = Term{args[1], SInt}
		if h2, a2, ok2 := splitTop(args[1]); ok2 && h2 == "+" && len(a2) == 2 {
			return Select(Select(c.get(st, heap), arr, ArraySort(SInt, es)), pos(Term{a2[0], SInt}, Add(Term{a2[1], SInt}, i)), es)
		}
	}
	return Select(Select(c.get(st, heap), arr, ArraySort(SInt, es)), pos(off, i), es)
}

// pos is the absolute position of element i of a slice window starting at off. It is written with the
// function idx (axiom: idx(o, i) = o + i, instantiated per ground application) instead of "+", so that element
// terms are usable as e-matching triggers: the solver's arithmetic normaliser rewrites sums, which makes
// "(+ off i)" unmatchable as soon as i is itself a sum.
func pos(off, i Term) Term {
	if off.S == "0" {
		return i
	}
	return Term{app("idx", off, i), SInt}
}

func slLen(sl Term) Term { return Term{app("sl-len", sl), SInt} }
func slCap(sl Term) Term { return Term{app("sl-cap", sl), SInt} }
func slArr(sl Term) Term { return Term{app("sl-arr", sl), SInt} }
func slOff(sl Term) Term { return Term{app("sl-off", sl), SInt} }

func (x *EvalCtx) evalCall(e *Expr) TV {
	c := x.c
	switch e.Name {
	case "len":
		a := x.eval(e.Args[0])
		if a.T.Sort == SSlice {
			return TV{slLen(a.T), tyInt}
		}
		if a.Ty != nil {
			if _, ok := a.Ty.Underlying().(*types.Map); ok {
				dom, _, ks, _ := c.mapHeaps(a.Ty)
				return TV{c.card(Select(c.get(x.st, dom), a.T, ArraySort(ks, SBool))), tyInt}
			}
			if isStringType(a.Ty) {
				return TV{Term{app("strLen", a.T), SInt}, tyInt}
			}
		}
		efail("len of %v", a.Ty)
	case "has":
		m := x.eval(e.Args[0])
		k := x.eval(e.Args[1])
		if m.Ty == nil {
			efail("has on untyped")
		}
		if _, ok := m.Ty.Underlying().(*types.Map); !ok {
			efail("has on non-map %s", m.Ty)
		}
		dom, _, ks, _ := c.mapHeaps(m.Ty)
		if k.T.Sort != ks {
			efail("has: key sort mismatch")
		}
		return TV{Select(Select(c.get(x.st, dom), m.T, ArraySort(ks, SBool)), k.T, SBool), tyBool}
	case "visited":
		if x.visited == "" {
			efail("visited() outside a map-range loop")
		}
		k := x.eval(e.Args[0])
		return TV{Select(c.get(x.st, x.visited), k.T, SBool), tyBool}
	case "fresh":
		a := x.eval(e.Args[0])
		t := a.T
		if t.Sort == SSlice {
			t = slArr(t)
		}
		return TV{Le(c.nextRef(x.old), t), tyBool}
	case "freshSinceEntry":
		if x.entrySt == nil {
			efail("freshSinceEntry outside a loop clause")
		}
		a := x.eval(e.Args[0])
		t := a.T
		if t.Sort == SSlice {
			t = slArr(t)
		}
		return TV{Le(c.nextRef(x.entrySt), t), tyBool}
	case "allocated":
		a := x.eval(e.Args[0])
		t := a.T
		if t.Sort == SSlice {
			t = slArr(t)
		}
		return TV{Lt(t, c.nextRef(x.st)), tyBool}
	case "ite":
		cnd := x.eval(e.Args[0])
		a := x.eval(e.Args[1])
		b := x.eval(e.Args[2])
		return TV{Ite(cnd.T, a.T, b.T), a.Ty}
	case "contains":
		s := x.eval(e.Args[0])
		v := x.eval(e.Args[1])
		sl, ok := s.Ty.Underlying().(*types.Slice)
		if !ok {
			efail("contains on non-slice")
		}
		heap, es := c.elemHeap(sl.Elem())
		if v.T.Sort != es {
			efail("contains: element sort mismatch")
		}
		inner := Select(c.get(x.st, heap), slArr(s.T), ArraySort(SInt, es))
		set := c.elemsOf(inner, slOff(s.T), slLen(s.T), es)
		return TV{Select(set, v.T, SBool), tyBool}
	case "unchangedMap", "sameMapAsEntry":
		m := x.eval(e.Args[0])
		ref := x.old
		if e.Name == "sameMapAsEntry" {
			if x.entrySt == nil {
				efail("sameMapAsEntry outside a loop clause")
			}
			ref = x.entrySt
		}
		if m.Ty == nil {
			efail("unchangedMap on untyped")
		}
		if _, ok := m.Ty.Underlying().(*types.Map); !ok {
			efail("unchangedMap on non-map")
		}
		dom, val, ks, vs := c.mapHeaps(m.Ty)
		r := Eq(Select(c.get(x.st, dom), m.T, ArraySort(ks, SBool)), Select(c.get(ref, dom), m.T, ArraySort(ks, SBool)))
		if vs != SUnit {
			r = And(r, Eq(Select(c.get(x.st, val), m.T, ArraySort(ks, vs)), Select(c.get(ref, val), m.T, ArraySort(ks, vs))))
		}
		return TV{r, tyBool}
	case "content":
		a := x.eval(e.Args[0])
		if a.T.Sort != SSlice {
			efail("content of non-slice")
		}
		return TV{c.bytesContent(x.st, a.T), tyString}
	case "jsonEnc":
		a := x.eval(e.Args[0])
		if a.T.Sort != SAny {
			efail("jsonEnc of non-interface value")
		}
		return TV{c.jsonEnc(a.T), tyString}
	case "fmtTime":
		a := x.eval(e.Args[0])
		return TV{c.fmtTime(a.T), tyString}
	case "parseOK":
		a := x.eval(e.Args[0])
		c.declareFun("parseTimeOK", []Sort{SInt}, SBool)
		return TV{Term{app("parseTimeOK", a.T), SBool}, tyBool}
	case "zeroTime":
		tt, _ := c.eng.resolveType("time.Time")
		return TV{IntLit(0), tt}
	case "parseVal":
		a := x.eval(e.Args[0])
		c.declareFun("parseTimeVal", []Sort{SInt}, SInt)
		tt, _ := c.eng.resolveType("time.Time")
		return TV{Term{app("parseTimeVal", a.T), SInt}, tt}
	case "errMsgIs":
		a := x.eval(e.Args[0])
		b := x.eval(e.Args[1])
		c.declareFun("errMsg", []Sort{SInt}, SInt)
		return TV{Eq(Term{app("errMsg", a.T), SInt}, b.T), tyBool}
	case "trimSpace":
		a := x.eval(e.Args[0])
		return TV{c.trimSpace(a.T), tyString}
	case "foldl8":
		return x.evalFold(e)
	case "fileExists":
		// exists(path): the ghost file-presence set
		a := x.eval(e.Args[0])
		cell, ok := c.ghostCell("fsExists")
		if !ok {
			efail("exists() needs `ghost fsExists pathset`")
		}
		return TV{Select(c.get(x.st, cell), a.T, SBool), tyBool}
	case "stdinData":
		// the bytes standing on stdin (uninterpreted constant)
		c.declareFun("stdinData", nil, SInt)
		return TV{Term{"stdinData", SInt}, tyString}
	case "fileData":
		// the bytes of the named file (uninterpreted; the file system is not modelled beyond presence)
		a := x.eval(e.Args[0])
		c.declareFun("fileData", []Sort{SInt}, SInt)
		return TV{Term{app("fileData", a.T), SInt}, tyString}
	case "sha256hex":
		a := x.eval(e.Args[0])
		return TV{c.sha256Hex(a.T), tyString}
	case "pathJoin":
		// filepath.Join(a, b) as the same uninterpreted function the code uses
		a := x.eval(e.Args[0])
		b := x.eval(e.Args[1])
		c.declareFun("ext_path_filepath.Join_2", []Sort{SInt, SInt}, SInt)
		return TV{Term{app("ext_path_filepath.Join_2", a.T, b.T), SInt}, tyString}
	case "deref":
		a := x.eval(e.Args[0])
		pt, ok := a.Ty.Underlying().(*types.Pointer)
		if !ok {
			efail("deref of non-pointer")
		}
		if _, isStruct := isStructPtr(a.Ty); isStruct {
			efail("deref of struct pointer: use field selection")
		}
		heap, s := c.boxHeap(pt.Elem())
		return TV{Select(c.get(x.st, heap), a.T, s), pt.Elem()}
	case "window":
		// window(s, from, n): the sub-slice s[from : from+n] as a value (no bounds obligation: a specification term)
		a := x.eval(e.Args[0])
		from := x.eval(e.Args[1])
		n := x.eval(e.Args[2])
		if a.T.Sort != SSlice {
			efail("window of non-slice")
		}
		return TV{Term{app("mk-slice", slArr(a.T), Add(slOff(a.T), from.T), n.T, n.T), SSlice}, a.Ty}
	case "cap":
		a := x.eval(e.Args[0])
		if a.T.Sort != SSlice {
			efail("cap of non-slice")
		}
		return TV{slCap(a.T), tyInt}
	case "sameArray":
		a := x.eval(e.Args[0])
		b := x.eval(e.Args[1])
		if a.T.Sort != SSlice || b.T.Sort != SSlice {
			efail("sameArray of non-slices")
		}
		return TV{And(Eq(slArr(a.T), slArr(b.T)), Eq(slOff(a.T), slOff(b.T))), tyBool}
	case "prefixHas":
		// prefixHas(s, n, x): x is among the first n elements of s
		s := x.eval(e.Args[0])
		nn := x.eval(e.Args[1])
		v := x.eval(e.Args[2])
		sl, ok := s.Ty.Underlying().(*types.Slice)
		if !ok {
			efail("prefixHas on non-slice")
		}
		heap, es := c.elemHeap(sl.Elem())
		inner := Select(c.get(x.st, heap), slArr(s.T), ArraySort(SInt, es))
		set := c.elemsOf(inner, slOff(s.T), nn.T, es)
		return TV{Select(set, v.T, SBool), tyBool}
	case "unbox":
		// unbox(T, anyvalue)
		efail("unbox not supported here")
	}
	if strings.HasPrefix(e.Name, "dec_") || strings.HasPrefix(e.Name, "decOK_") {
		isOK := strings.HasPrefix(e.Name, "decOK_")
		tname := strings.TrimPrefix(strings.TrimPrefix(e.Name, "decOK_"), "dec_")
		ty, err := c.eng.resolveType(tname)
		if err != nil {
			efail("%v", err)
		}
		a := x.eval(e.Args[0])
		dec, ok := c.jsonDec(ty, a.T)
		if isOK {
			return TV{ok, tyBool}
		}
		return TV{dec, ty}
	}
	// boxed payload accessors: isT_<Type>(any), asT_<Type>(any)
	if strings.HasPrefix(e.Name, "is_") || strings.HasPrefix(e.Name, "as_") {
		ty, err := c.eng.resolveType(e.Name[3:])
		if err != nil {
			efail("%v", err)
		}
		a := x.eval(e.Args[0])
		ctor := c.boxCtor(ty)
		if e.Name[:3] == "is_" {
			return TV{Term{fmt.Sprintf("((_ is %s) %s)", ctor, a.T.S), SBool}, tyBool}
		}
		return TV{Term{app("un"+ctor, a.T), c.sortOf(ty)}, ty}
	}
	if sf, ok := c.eng.cf.Specs[e.Name]; ok {
		if len(sf.Params) != len(e.Args) {
			efail("spec %s: expected %d args", e.Name, len(sf.Params))
		}
		if x.depth > 40 {
			efail("spec expansion too deep (recursive spec %s?)", e.Name)
		}
		vars := map[string]TV{}
		for i, p := range sf.Params {
			a := x.eval(e.Args[i])
			pt, err := c.eng.resolveType(p.Type)
			if err != nil {
				efail("spec %s: %v", e.Name, err)
			}
			if c.sortOf(pt) != a.T.Sort {
				efail("spec %s: argument %d has sort %s, want %s", e.Name, i, a.T.Sort, c.sortOf(pt))
			}
			vars[p.Name] = TV{a.T, pt}
		}
		n := *x
		n.vars = vars
		// spec bodies may not see caller locals
		n.resolve = nil
		n.depth = x.depth + 1
		r := n.eval(sf.Body)
		rt, err := c.eng.resolveType(sf.Result)
		if err == nil {
			r.Ty = rt
		}
		return r
	}
	if uf, ok := c.eng.cf.UFuns[e.Name]; ok {
		return x.applyUFun(uf, e)
	}
	efail("unknown function %s", e.Name)
	return TV{}
}

func (x *EvalCtx) applyUFun(uf *UFun, e *Expr) TV {
	c := x.c
	if len(uf.Params) != len(e.Args) {
		efail("ufun %s: expected %d args", uf.Name, len(uf.Params))
	}
	var args []Term
	for _, a := range e.Args {
		args = append(args, x.eval(a).T)
	}
	return c.ufunApp(uf, args)
}

func (c *Enc) ufunApp(uf *UFun, args []Term) TV {
	var sorts []Sort
	for _, p := range uf.Params {
		pt, err := c.eng.resolveType(p.Type)
		if err != nil {
			efail("ufun %s: %v", uf.Name, err)
		}
		sorts = append(sorts, c.sortOf(pt))
	}
	rt, err := c.eng.resolveType(uf.Result)
	if err != nil {
		efail("ufun %s: %v", uf.Name, err)
	}
	for i, a := range args {
		if a.Sort != sorts[i] {
			efail("ufun %s: argument %d has sort %s, want %s", uf.Name, i, a.Sort, sorts[i])
		}
	}
	c.declareFun("uf_"+uf.Name, sorts, c.sortOf(rt))
	if !c.ufuns[uf.Name] {
		c.ufuns[uf.Name] = true
		reason := uf.Reason
		if reason == "" {
			reason = "uninterpreted"
		}
		c.trusted["ufun "+uf.Name] = reason
	}
	return TV{Term{app("uf_"+uf.Name, args...), c.sortOf(rt)}, rt}
}

func (x *EvalCtx) evalQuant(e *Expr) TV {
	c := x.c
	vars := map[string]TV{}
	var bound []Term
	for _, b := range e.Binds {
		bt, err := c.eng.resolveType(b.Type)
		if err != nil {
			efail("%v", err)
		}
		c.n++
		sym := fmt.Sprintf("%s!q%d", b.Name, c.n)
		s := c.sortOf(bt)
		vars[b.Name] = TV{Term{sym, s}, bt}
		bound = append(bound, Term{sym, s})
	}
	n := x.with(vars)
	body := n.eval(e.Args[0])
	if body.T.Sort != SBool {
		efail("quantifier body not boolean")
	}
	var pats []string
	for _, p := range e.Pats {
		var ts []string
		for _, pe := range p {
			ts = append(ts, n.eval(pe).T.S)
		}
		pats = append(pats, ":pattern ("+strings.Join(ts, " ")+")")
	}
	return TV{mkQuant(e.Name, bound, body.T.S, pats), tyBool}
}

var _ = ssa.NaiveForm

// evalFold expands foldl8(f, s, init, extra...) = f(s[7], extra..., ... f(s[0], extra..., init)) over the
// first min(len(s), 8) elements of s. f is a spec function f(elem, extra..., acc).
func (x *EvalCtx) evalFold(e *Expr) TV {
	c := x.c
	if len(e.Args) < 3 || e.Args[0].Op != "ident" {
		efail("foldl8(f, s, init, extra...)")
	}
	fname := e.Args[0].Name
	s := x.eval(e.Args[1])
	acc := x.eval(e.Args[2])
	sl, ok := s.Ty.Underlying().(*types.Slice)
	if !ok {
		efail("foldl8 over non-slice")
	}
	heap, es := c.elemHeap(sl.Elem())
	var extra []TV
	for _, a := range e.Args[3:] {
		extra = append(extra, x.eval(a))
	}
	for k := 0; k < 8; k++ {
		vars := map[string]TV{"fold_elem": {c.sliceElem(x.st, heap, es, s.T, IntLit(int64(k))), sl.Elem()}, "fold_acc": acc}
		args := []*Expr{{Op: "ident", Name: "fold_elem"}}
		for i, ev := range extra {
			n := fmt.Sprintf("fold_x%d", i)
			vars[n] = ev
			args = append(args, &Expr{Op: "ident", Name: n})
		}
		args = append(args, &Expr{Op: "ident", Name: "fold_acc"})
		n := x.with(vars)
		step := n.eval(&Expr{Op: "call", Name: fname, Args: args})
		next := Ite(Lt(IntLit(int64(k)), slLen(s.T)), step.T, acc.T)
		if !strings.Contains(next.S, "!q") {
			sym := c.fresh("fold", next.Sort)
			c.assert(Eq(sym, next))
			next = sym
		}
		acc = TV{next, acc.Ty}
	}
	return acc
}
