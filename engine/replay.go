package main

import (
	"bufio"
	"encoding/json"
	"fmt"
	"go/types"
	"io"
	"os"
	"os/exec"
	"path/filepath"
	"regexp"
	"sort"
	"strconv"
	"strings"
	"time"

	"golang.org/x/tools/go/ssa"
)

// ---------------------------------------------------------------------------
// Counterexample replay: candidate inputs from the solver (quantified assumptions dropped), concrete run of
// the REAL function under `go test -overlay`, and evaluation of the function's postconditions on the
// observed pre/post states by the solver (ground query). Only a confirmed failure counts as a counterexample.

type spec struct {
	Kind    string           `json:"kind"`
	ID      int64            `json:"id,omitempty"`
	Str     string           `json:"str,omitempty"`
	Int     int64            `json:"int,omitempty"`
	Bool    bool             `json:"bool,omitempty"`
	Fields  map[string]*spec `json:"fields,omitempty"`
	Entries [][2]*spec       `json:"entries,omitempty"`
	Elems   []*spec          `json:"elems,omitempty"`
	Off     int64            `json:"off,omitempty"`
	Cap     int64            `json:"cap,omitempty"`
	Type    string           `json:"type,omitempty"`
	strInt  int64            // solver value of a string (before concretisation)
	isStr   bool
}

type harnessOutput struct {
	Panicked string  `json:"panicked,omitempty"`
	Results  []*spec `json:"results"`
	Args     []*spec `json:"args"`
}

type session struct {
	cmd *exec.Cmd
	in  io.WriteCloser
	out *bufio.Reader
}

func startSession(timeoutS int) (*session, error) {
	cmd := exec.Command("z3-new", "-in", fmt.Sprintf("-T:%d", timeoutS))
	in, err := cmd.StdinPipe()
	if err != nil {
		return nil, err
	}
	outp, err := cmd.StdoutPipe()
	if err != nil {
		return nil, err
	}
	cmd.Stderr = nil
	if err := cmd.Start(); err != nil {
		return nil, err
	}
	return &session{cmd: cmd, in: in, out: bufio.NewReader(outp)}, nil
}

func (s *session) close() {
	_ = s.in.Close()
	done := make(chan struct{})
	go func() { _ = s.cmd.Wait(); close(done) }()
	select {
	case <-done:
	case <-time.After(2 * time.Second):
		_ = s.cmd.Process.Kill()
	}
}

// send writes text and reads one complete response (a word or a balanced s-expression).
func (s *session) send(text string) (string, error) {
	if _, err := io.WriteString(s.in, text+"\n"); err != nil {
		return "", err
	}
	var b strings.Builder
	depth := 0
	started := false
	for {
		r, _, err := s.out.ReadRune()
		if err != nil {
			return b.String(), err
		}
		if !started {
			if r == ' ' || r == '\n' || r == '\t' || r == '\r' {
				continue
			}
			started = true
		}
		b.WriteRune(r)
		if r == '(' {
			depth++
		} else if r == ')' {
			depth--
			if depth == 0 {
				return b.String(), nil
			}
		} else if depth == 0 && (r == '\n') {
			return strings.TrimSpace(b.String()), nil
		}
	}
}

func (s *session) value(term string) (string, error) {
	resp, err := s.send("(get-value (" + term + "))")
	if err != nil {
		return "", err
	}
	// ((term value))
	resp = strings.TrimSpace(resp)
	if strings.HasPrefix(resp, "(error") {
		return "", fmt.Errorf("%s", resp)
	}
	toks := tokenizeSexp(resp)
	// skip "(" "(" then the term tokens (balanced), then the value
	pos := 2
	skip := func() {
		if pos >= len(toks) {
			return
		}
		if toks[pos] != "(" {
			pos++
			return
		}
		d := 0
		for pos < len(toks) {
			if toks[pos] == "(" {
				d++
			} else if toks[pos] == ")" {
				d--
				if d == 0 {
					pos++
					return
				}
			}
			pos++
		}
	}
	skip()
	start := pos
	skip()
	return strings.Join(toks[start:pos], " "), nil
}

func parseIntValue(v string) (int64, bool) {
	v = strings.TrimSpace(v)
	v = strings.ReplaceAll(v, "( - ", "(- ")
	if strings.HasPrefix(v, "(- ") {
		n, err := strconv.ParseInt(strings.TrimSpace(strings.TrimSuffix(strings.TrimPrefix(v, "(- "), ")")), 10, 64)
		return -n, err == nil
	}
	if strings.HasPrefix(v, "(") {
		v = strings.Trim(v, "() ")
		if strings.HasPrefix(v, "- ") {
			n, err := strconv.ParseInt(strings.TrimSpace(v[2:]), 10, 64)
			return -n, err == nil
		}
	}
	n, err := strconv.ParseInt(v, 10, 64)
	return n, err == nil
}

var intRe = regexp.MustCompile(`-?\d+`)

type extractor struct {
	c     *Enc
	sess  *session
	memo  map[string]*spec
	strs  map[int64]bool
	fail  string
	count int
}

func (x *extractor) intOf(term string) int64 {
	v, err := x.sess.value(term)
	if err != nil {
		x.fail = err.Error()
		return 0
	}
	n, ok := parseIntValue(v)
	if !ok {
		x.fail = "non-integer value " + v + " for " + term
	}
	return n
}

func (x *extractor) boolOf(term string) bool {
	v, err := x.sess.value(term)
	if err != nil {
		x.fail = err.Error()
		return false
	}
	return strings.TrimSpace(v) == "true"
}

// extract builds the concrete value of `term` (an SMT term of the sort of Go type t) in the entry state.
func (x *extractor) extract(term string, t types.Type, depth int) *spec {
	c := x.c
	x.count++
	if x.fail != "" || x.count > 4000 || depth > 12 {
		if x.fail == "" {
			x.fail = "model too large to concretise"
		}
		return &spec{Kind: "nil"}
	}
	if isTimeType(t) {
		return &spec{Kind: "time", Int: x.intOf(term)}
	}
	if isErrorType(t) {
		return &spec{Kind: "err", Int: x.intOf(term)}
	}
	switch u := t.Underlying().(type) {
	case *types.Basic:
		switch {
		case u.Info()&types.IsBoolean != 0:
			return &spec{Kind: "bool", Bool: x.boolOf(term)}
		case u.Info()&types.IsString != 0:
			n := x.intOf(term)
			x.strs[n] = true
			return &spec{Kind: "str", strInt: n, isStr: true}
		default:
			return &spec{Kind: "int", Int: x.intOf(term)}
		}
	case *types.Pointer:
		id := x.intOf(term)
		if id == 0 {
			return &spec{Kind: "nil"}
		}
		key := typeKey(t) + ":" + fmt.Sprint(id)
		if _, ok := x.memo[key]; ok {
			return &spec{Kind: "ptr", ID: id}
		}
		s := &spec{Kind: "ptr", ID: id, Fields: map[string]*spec{}}
		x.memo[key] = s
		if st, ok := isStructPtr(t); ok {
			si := c.structInfoOf(st)
			for i, f := range si.fields {
				heap, _, _ := c.fieldHeap(st, i)
				s.Fields[f.name] = x.extract(fmt.Sprintf("(select %s %d)", c.heapInit[heap].S, id), f.typ, depth+1)
			}
		} else {
			heap, _ := c.boxHeap(u.Elem())
			s.Fields["*"] = x.extract(fmt.Sprintf("(select %s %d)", c.heapInit[heap].S, id), u.Elem(), depth+1)
		}
		return s
	case *types.Map:
		id := x.intOf(term)
		if id == 0 {
			return &spec{Kind: "nil"}
		}
		key := typeKey(t) + ":" + fmt.Sprint(id)
		if _, ok := x.memo[key]; ok {
			return &spec{Kind: "map", ID: id}
		}
		s := &spec{Kind: "map", ID: id}
		x.memo[key] = s
		dom, val, _, vs := c.mapHeaps(t)
		domTerm := fmt.Sprintf("(select %s %d)", c.heapInit[dom].S, id)
		printed, err := x.sess.value(domTerm)
		if err != nil {
			x.fail = err.Error()
			return s
		}
		seen := map[int64]bool{}
		var keys []int64
		for _, m := range intRe.FindAllString(printed, -1) {
			n, _ := strconv.ParseInt(m, 10, 64)
			if !seen[n] {
				seen[n] = true
				keys = append(keys, n)
			}
		}
		sort.Slice(keys, func(i, j int) bool { return keys[i] < keys[j] })
		for _, k := range keys {
			if len(s.Entries) >= 12 {
				break
			}
			if !x.boolOf(fmt.Sprintf("(select %s %d)", domTerm, k)) {
				continue
			}
			kterm := fmt.Sprint(k)
			if k < 0 {
				kterm = fmt.Sprintf("(- %d)", -k)
			}
			ks := x.extract(kterm, u.Key(), depth+1)
			var vsp *spec
			if vs == SUnit {
				vsp = &spec{Kind: "struct", Fields: map[string]*spec{}}
			} else {
				vsp = x.extract(fmt.Sprintf("(select (select %s %d) %s)", c.heapInit[val].S, id, kterm), u.Elem(), depth+1)
			}
			s.Entries = append(s.Entries, [2]*spec{ks, vsp})
		}
		return s
	case *types.Slice:
		arr := x.intOf("(sl-arr " + term + ")")
		if arr == 0 {
			return &spec{Kind: "nil"}
		}
		off := x.intOf("(sl-off " + term + ")")
		ln := x.intOf("(sl-len " + term + ")")
		cp := x.intOf("(sl-cap " + term + ")")
		if ln > 8 || ln < 0 {
			x.fail = fmt.Sprintf("slice of length %d in the model", ln)
			return &spec{Kind: "nil"}
		}
		if cp > 16 {
			cp = ln
		}
		s := &spec{Kind: "slice", ID: arr, Off: off, Cap: cp}
		heap, _ := c.elemHeap(u.Elem())
		for i := int64(0); i < ln; i++ {
			s.Elems = append(s.Elems, x.extract(fmt.Sprintf("(select (select %s %d) %d)", c.heapInit[heap].S, arr, off+i), u.Elem(), depth+1))
		}
		return s
	case *types.Struct:
		s := &spec{Kind: "struct", Fields: map[string]*spec{}}
		if u.NumFields() == 0 {
			return s
		}
		si := c.structInfoOf(t)
		for _, f := range si.fields {
			s.Fields[f.name] = x.extract(fmt.Sprintf("(%s_%s %s)", si.sort, f.name, term), f.typ, depth+1)
		}
		return s
	}
	x.fail = "unsupported parameter type " + t.String()
	return &spec{Kind: "nil"}
}

// concretiseStrings maps solver integers of string sort to Go strings that respect the literal table and
// the integer order (Go compares strings lexicographically; literals are ordered the same way in the query).
func concretiseStrings(vals map[int64]bool, litVal map[string]int64) map[int64]string {
	out := map[int64]string{0: ""}
	byVal := map[int64]string{}
	var lits []string
	for l, v := range litVal {
		byVal[v] = l
		lits = append(lits, l)
	}
	sort.Slice(lits, func(i, j int) bool { return litVal[lits[i]] < litVal[lits[j]] })
	var ints []int64
	for v := range vals {
		ints = append(ints, v)
	}
	sort.Slice(ints, func(i, j int) bool { return ints[i] < ints[j] })
	for _, v := range ints {
		if v == 0 {
			continue
		}
		if l, ok := byVal[v]; ok {
			out[v] = l
			continue
		}
		if v < 0 {
			out[v] = "" // below the empty string: not a string value
			continue
		}
		// greatest literal below v
		base := ""
		var baseVal int64
		for _, l := range lits {
			if litVal[l] < v {
				base, baseVal = l, litVal[l]
			}
		}
		out[v] = fmt.Sprintf("%s\x01%012d", base, v-baseVal)
		if base == "" {
			out[v] = fmt.Sprintf("\x01%012d", v)
		}
	}
	return out
}

func applyStrings(s *spec, m map[int64]string) {
	if s == nil {
		return
	}
	if s.isStr {
		s.Str = m[s.strInt]
	}
	for _, f := range s.Fields {
		applyStrings(f, m)
	}
	for _, e := range s.Entries {
		applyStrings(e[0], m)
		applyStrings(e[1], m)
	}
	for _, e := range s.Elems {
		applyStrings(e, m)
	}
}

func replaySupported(fn *ssa.Function) string {
	if len(fn.FreeVars) > 0 {
		return "closure (needs its enclosing command and a schedule)"
	}
	if fn.Signature.Recv() != nil {
		return "method receiver"
	}
	for _, p := range fn.Params {
		if _, ok := p.Type().Underlying().(*types.Signature); ok {
			if p.Type().String() != "func(string) (string, error)" {
				return "function-typed parameter"
			}
		}
		if _, ok := p.Type().Underlying().(*types.Interface); ok {
			return "interface-typed parameter"
		}
	}
	return ""
}

// replayObligation tries to confirm a non-discharged obligation with a concrete run of the real function.
func (e *Engine) replayObligation(scratch string, r *FuncResult, o *Obligation) *ReplayResult {
	fn := e.funcs[r.Func]
	res := &ReplayResult{}
	if fn == nil {
		res.Output = "function not found"
		return res
	}
	if why := replaySupported(fn); why != "" {
		res.Output = "no replay: " + why
		return res
	}
	c := r.Enc
	// every heap reachable from the parameter types must be declared before the query text is built
	seenT := map[string]bool{}
	for _, p := range fn.Params {
		c.registerTypeHeaps(p.Type(), seenT)
	}
	// 1. candidate query: ground part of the obligation's query
	q := c.queryFor(o)
	var kept []string
	lines := strings.Split(q, "\n")
	for i, l := range lines {
		isGoal := i >= len(lines)-3
		if !isGoal && strings.HasPrefix(l, "(assert") && (strings.Contains(l, "(forall ") || strings.Contains(l, "(exists ")) {
			continue
		}
		kept = append(kept, l)
	}
	// finite maps: domains default to false in the candidate model
	for name, init := range c.heapInit {
		if strings.HasPrefix(name, "MD_") {
			for _, p := range fn.Params {
				if _, ok := p.Type().Underlying().(*types.Map); ok {
					kept = append(kept, fmt.Sprintf("(assert (= (default (select %s p_%s)) false))", init.S, sanitize(p.Name())))
				}
			}
		}
	}
	sess, err := startSession(30)
	if err != nil {
		res.Output = err.Error()
		return res
	}
	defer sess.close()
	status, err := sess.send(strings.Join(kept, "\n") + "\n(check-sat)")
	if err != nil || strings.TrimSpace(status) != "sat" {
		res.Output = "no candidate model (ground part: " + strings.TrimSpace(status) + ")"
		return res
	}
	// 2. extract parameter values
	x := &extractor{c: c, sess: sess, memo: map[string]*spec{}, strs: map[int64]bool{}}
	var args []*spec
	for _, p := range fn.Params {
		if _, ok := p.Type().Underlying().(*types.Signature); ok {
			args = append(args, &spec{Kind: "func"})
			continue
		}
		args = append(args, x.extract("p_"+sanitize(p.Name()), p.Type(), 0))
	}
	if x.fail != "" {
		res.Output = "candidate model not concretised: " + x.fail
		return res
	}
	litVal := map[string]int64{}
	for _, l := range c.litOrder {
		litVal[l] = x.intOf(c.lits[l])
	}
	strMap := concretiseStrings(x.strs, litVal)
	for _, a := range args {
		applyStrings(a, strMap)
	}
	// memoised pointer objects referenced only by id need their fields where first seen: specs already carry them
	inputs, _ := json.MarshalIndent(args, "", " ")
	res.Inputs = string(inputs)
	// 3. run the real function
	out, testSrc, cmdline, runLog := e.runHarness(scratch, fn, args)
	res.Command = cmdline
	res.TestFile = testSrc
	if out == nil {
		res.Output = "replay run failed: " + runLog
		return res
	}
	if out.Panicked != "" {
		res.Confirmed = true
		res.Output = "the real function panicked on the candidate input: " + out.Panicked
		return res
	}
	// 4. evaluate the postconditions on the observed states
	failed, detail := e.evalEnsuresConcrete(scratch, fn, args, out)
	if len(failed) > 0 {
		res.Confirmed = true
		res.Output = "postcondition(s) violated by the real function on the candidate input: " + strings.Join(failed, ", ") + "\n" + detail
		return res
	}
	res.Output = "the solver's candidate input does not violate the contract on the real code (its model exploited a dropped quantified assumption)\n" + detail
	// 5. search small inputs with the contract as the oracle
	if hit := e.searchSmallInputs(scratch, fn, c, res); hit {
		return res
	}
	return res
}

// searchSmallInputs generates small inputs by type, keeps those satisfying the preconditions, runs the real
// function and evaluates its postconditions on the observed states. Returns true when a counterexample is confirmed.
func (e *Engine) searchSmallInputs(scratch string, fn *ssa.Function, c *Enc, res *ReplayResult) bool {
	seed := int64(1)
	fmt.Sscanf(os.Getenv("VERIF_SEED"), "%d", &seed)
	n := 240
	if os.Getenv("VERIF_TIER") == "thorough" {
		n = 600
	}
	g := newInputGen(seed, fn, c.litOrder)
	var cases [][]*spec
	for i := 0; i < n; i++ {
		cases = append(cases, g.genCase(fn))
	}
	outs, src, cmdline, logText := e.runHarnessBatch(scratch, fn, cases)
	if outs == nil {
		res.Output += "small-input search: harness failed: " + logText
		return false
	}
	tried, admissible := 0, 0
	for i, out := range outs {
		if i >= len(cases) {
			break
		}
		tried++
		if bad, _ := e.evalClausesConcrete(scratch, fn, cases[i], out, "requires"); len(bad) > 0 {
			continue
		}
		admissible++
		var failed []string
		detail := ""
		if out.Panicked != "" {
			failed = []string{"panic: " + out.Panicked}
		} else {
			failed, detail = e.evalClausesConcrete(scratch, fn, cases[i], out, "ensures")
		}
		if len(failed) > 0 {
			in, _ := json.MarshalIndent(cases[i], "", " ")
			res.Confirmed = true
			res.Inputs = string(in)
			res.TestFile = src
			res.Command = cmdline + "   (case " + fmt.Sprint(i) + " of the generated batch; inputs below)"
			res.Output = fmt.Sprintf("confirmed on the real code by small-input search (case %d of %d generated, %d admissible): %s\n%s", i, len(cases), admissible, strings.Join(failed, ", "), detail)
			return true
		}
	}
	res.Output += fmt.Sprintf("small-input search: %d generated inputs, %d satisfying the preconditions, none violates a postcondition on the real code\n", tried, admissible)
	return false
}

func goTypeString(t types.Type, pkg *types.Package) string {
	return types.TypeString(t, func(p *types.Package) string {
		if p == pkg {
			return ""
		}
		return p.Name()
	})
}

// runHarness generates the replay test, runs it with go test -overlay and returns the dumped outputs.
func (e *Engine) runHarness(scratch string, fn *ssa.Function, args []*spec) (*harnessOutput, string, string, string) {
	outs, src, cmdline, logText := e.runHarnessBatch(scratch, fn, [][]*spec{args})
	if len(outs) == 0 {
		return nil, src, cmdline, logText
	}
	return outs[0], src, cmdline, logText
}

func (e *Engine) runHarnessBatch(scratch string, fn *ssa.Function, cases [][]*spec) ([]*harnessOutput, string, string, string) {
	dir := filepath.Join(scratch, "replay_"+sanitize(funcKey(fn)))
	_ = os.MkdirAll(dir, 0755)
	var b strings.Builder
	b.WriteString("package ergo\n\nimport (\n\t\"fmt\"\n\t\"reflect\"\n\t\"testing\"\n\t\"time\"\n)\n\nvar _ = time.Now\nvar _ = fmt.Sprint\n\n")
	b.WriteString("func TestVerifReplay_Run(t *testing.T) {\n\tvar outs []*verifOutput\n\tfor _, specs := range verifLoadCases() {\n\tb := newVerifBuilder()\n\tout := &verifOutput{}\n")
	var argNames []string
	for i, p := range fn.Params {
		ts := goTypeString(p.Type(), e.tpkg)
		if _, ok := p.Type().Underlying().(*types.Signature); ok {
			fmt.Fprintf(&b, "\tvar a%d %s = identityBodyResolver\n", i, ts)
		} else {
			fmt.Fprintf(&b, "\ta%d := b.build(reflect.TypeOf((*%s)(nil)).Elem(), specs[%d]).Interface().(%s)\n", i, ts, i, ts)
		}
		argNames = append(argNames, fmt.Sprintf("a%d", i))
	}
	b.WriteString("\tfunc() {\n\t\tdefer func() {\n\t\t\tif r := recover(); r != nil {\n\t\t\t\tout.Panicked = fmt.Sprint(r)\n\t\t\t}\n\t\t}()\n")
	nres := fn.Signature.Results().Len()
	var resNames []string
	for i := 0; i < nres; i++ {
		resNames = append(resNames, fmt.Sprintf("r%d", i))
	}
	call := fn.Name() + "(" + strings.Join(argNames, ", ") + ")"
	if nres > 0 {
		fmt.Fprintf(&b, "\t\t%s := %s\n", strings.Join(resNames, ", "), call)
		for i := 0; i < nres; i++ {
			rt := goTypeString(fn.Signature.Results().At(i).Type(), e.tpkg)
			fmt.Fprintf(&b, "\t\tout.Results = append(out.Results, b.dump(reflect.ValueOf(&r%d).Elem()))\n\t\t_ = (*%s)(nil)\n", i, rt)
		}
	} else {
		fmt.Fprintf(&b, "\t\t%s\n", call)
	}
	b.WriteString("\t}()\n")
	for i, p := range fn.Params {
		if _, ok := p.Type().Underlying().(*types.Signature); ok {
			b.WriteString("\tout.Args = append(out.Args, &verifSpec{Kind: \"func\"})\n")
			continue
		}
		fmt.Fprintf(&b, "\tb.seen = map[string]bool{}\n\tout.Args = append(out.Args, b.dump(reflect.ValueOf(&a%d).Elem()))\n", i)
	}
	b.WriteString("\touts = append(outs, out)\n\t}\n\tverifWrite(outs)\n}\n")
	testFile := filepath.Join(dir, "replay_test.go")
	harnessFile := filepath.Join(dir, "harness_test.go")
	_ = os.WriteFile(testFile, []byte(b.String()), 0644)
	_ = os.WriteFile(harnessFile, []byte(harnessSource), 0644)
	inFile := filepath.Join(dir, "in.json")
	outFile := filepath.Join(dir, "out.json")
	data, _ := json.Marshal(cases)
	_ = os.WriteFile(inFile, data, 0644)
	pkgDir := filepath.Join(e.repo, "internal/ergo")
	ov := map[string]map[string]string{"Replace": {
		filepath.Join(pkgDir, "zz_verif_replay_test.go"):  testFile,
		filepath.Join(pkgDir, "zz_verif_harness_test.go"): harnessFile,
	}}
	ovData, _ := json.Marshal(ov)
	ovFile := filepath.Join(dir, "overlay.json")
	_ = os.WriteFile(ovFile, ovData, 0644)
	cmdline := fmt.Sprintf("cd %s && VERIF_REPLAY_IN=%s VERIF_REPLAY_OUT=%s go test -overlay %s -vet=off -count=1 -timeout 120s -run TestVerifReplay_Run ./internal/ergo", e.repo, inFile, outFile, ovFile)
	cmd := exec.Command("bash", "-c", "ulimit -v 4000000; "+cmdline)
	cmd.Env = append(os.Environ(), "GOFLAGS=-mod=mod", "GOPROXY=off")
	outBytes, err := cmd.CombinedOutput()
	logText := string(outBytes)
	if len(logText) > 3000 {
		logText = logText[:3000]
	}
	od, rerr := os.ReadFile(outFile)
	if rerr != nil {
		return nil, b.String(), cmdline, fmt.Sprintf("%v: %s", err, logText)
	}
	var hos []*harnessOutput
	if jerr := json.Unmarshal(od, &hos); jerr != nil {
		return nil, b.String(), cmdline, jerr.Error()
	}
	return hos, b.String(), cmdline, logText
}

// ---------------------------------------------------------------------------
// concrete evaluation of postconditions

type concreteHeap struct {
	c       *Enc
	strID   map[string]int64
	arrays  map[string]map[string]string // heap name -> index term -> value term
	visited map[string]bool
	bytes   []byteSlice
	times   map[int64]bool
}

type byteSlice struct {
	inner    string
	off, len int64
	content  string
}

func (h *concreteHeap) str(s string) string {
	if s == "" {
		return "0"
	}
	return fmt.Sprint(h.strID[s])
}

func (h *concreteHeap) set(heap, idx, val string) {
	if h.arrays[heap] == nil {
		h.arrays[heap] = map[string]string{}
	}
	h.arrays[heap][idx] = val
}

// term converts a dumped value of Go type t to an SMT term, recording reachable objects in the heap.
func (h *concreteHeap) term(s *spec, t types.Type) string {
	c := h.c
	if isTimeType(t) {
		if s == nil {
			return "0"
		}
		if h.times != nil {
			h.times[s.Int] = true
		}
		return smtInt(s.Int)
	}
	if isErrorType(t) {
		if s == nil || s.Int == 0 {
			return "0"
		}
		return "777777"
	}
	if s == nil {
		return c.zero(t).S
	}
	switch u := t.Underlying().(type) {
	case *types.Basic:
		switch {
		case u.Info()&types.IsBoolean != 0:
			if s.Bool {
				return "true"
			}
			return "false"
		case u.Info()&types.IsString != 0:
			return h.str(s.Str)
		default:
			return smtInt(s.Int)
		}
	case *types.Pointer:
		if s.Kind == "nil" {
			return "0"
		}
		key := typeKey(t) + ":" + fmt.Sprint(s.ID)
		if s.Fields != nil && !h.visited[key] {
			h.visited[key] = true
			if st, ok := isStructPtr(t); ok {
				si := c.structInfoOf(st)
				for i, f := range si.fields {
					heap, _, _ := c.fieldHeap(st, i)
					h.set(heap, fmt.Sprint(s.ID), h.term(s.Fields[f.name], f.typ))
				}
			} else {
				heap, _ := c.boxHeap(u.Elem())
				h.set(heap, fmt.Sprint(s.ID), h.term(s.Fields["*"], u.Elem()))
			}
		}
		return fmt.Sprint(s.ID)
	case *types.Map:
		if s.Kind == "nil" {
			return "0"
		}
		key := typeKey(t) + ":" + fmt.Sprint(s.ID)
		if !h.visited[key] && (s.Entries != nil || s.Kind == "map") {
			h.visited[key] = true
			dom, val, ks, vs := c.mapHeaps(t)
			d := fmt.Sprintf("((as const %s) false)", ArraySort(ks, SBool))
			v := ""
			if vs != SUnit {
				v = fmt.Sprintf("((as const %s) %s)", ArraySort(ks, vs), c.zero(u.Elem()).S)
			}
			for _, e := range s.Entries {
				kt := h.term(e[0], u.Key())
				d = fmt.Sprintf("(store %s %s true)", d, kt)
				if vs != SUnit {
					v = fmt.Sprintf("(store %s %s %s)", v, kt, h.term(e[1], u.Elem()))
				}
			}
			h.set(dom, fmt.Sprint(s.ID), d)
			if vs != SUnit {
				h.set(val, fmt.Sprint(s.ID), v)
			}
		}
		return fmt.Sprint(s.ID)
	case *types.Slice:
		if s.Kind == "nil" {
			return "(mk-slice 0 0 0 0)"
		}
		heap, es := c.elemHeap(u.Elem())
		key := "slice:" + heap + ":" + fmt.Sprint(s.ID)
		inner := h.arrays[heap][fmt.Sprint(s.ID)]
		if inner == "" {
			inner = fmt.Sprintf("((as const %s) %s)", ArraySort(SInt, es), c.zero(u.Elem()).S)
		}
		_ = key
		for i, e := range s.Elems {
			inner = fmt.Sprintf("(store %s %d %s)", inner, s.Off+int64(i), h.term(e, u.Elem()))
		}
		h.set(heap, fmt.Sprint(s.ID), inner)
		if isByteSlice(t) {
			bs := make([]byte, len(s.Elems))
			for i, e := range s.Elems {
				bs[i] = byte(e.Int)
			}
			h.bytes = append(h.bytes, byteSlice{inner: inner, off: s.Off, len: int64(len(s.Elems)), content: string(bs)})
		}
		cp := s.Cap
		if cp < int64(len(s.Elems)) {
			cp = int64(len(s.Elems))
		}
		return fmt.Sprintf("(mk-slice %d %d %d %d)", s.ID, s.Off, len(s.Elems), cp)
	case *types.Struct:
		if u.NumFields() == 0 {
			return "unit"
		}
		si := c.structInfoOf(t)
		var parts []string
		for _, f := range si.fields {
			var fs *spec
			if s.Fields != nil {
				fs = s.Fields[f.name]
			}
			parts = append(parts, h.term(fs, f.typ))
		}
		return fmt.Sprintf("(mk_%s %s)", si.sort, strings.Join(parts, " "))
	}
	return c.zero(t).S
}

func smtInt(n int64) string {
	if n < 0 {
		return fmt.Sprintf("(- %d)", -n)
	}
	return fmt.Sprint(n)
}

func collectStrings(s *spec, into map[string]bool) {
	if s == nil {
		return
	}
	if s.Kind == "str" || s.Kind == "err" {
		into[s.Str] = true
	}
	for _, f := range s.Fields {
		collectStrings(f, into)
	}
	for _, e := range s.Entries {
		collectStrings(e[0], into)
		collectStrings(e[1], into)
	}
	for _, e := range s.Elems {
		collectStrings(e, into)
	}
}

// evalEnsuresConcrete checks every ensures clause of fn on the observed pre state (args), post state
// (out.Args) and results; returns the labels of the clauses that are false.
func (e *Engine) evalEnsuresConcrete(scratch string, fn *ssa.Function, args []*spec, out *harnessOutput) ([]string, string) {
	return e.evalClausesConcrete(scratch, fn, args, out, "ensures")
}

// evalClausesConcrete evaluates the clauses of the given kind (requires: on the pre state; ensures: on pre and
// post state) and returns the labels of those that are false. A combined query is tried first.
func (e *Engine) evalClausesConcrete(scratch string, fn *ssa.Function, args []*spec, out *harnessOutput, kind string) ([]string, string) {
	fc := e.cf.Funcs[funcKey(fn)]
	if fc == nil {
		return nil, "no contract"
	}
	c := newEnc(e, fn)
	fr := c.newFrame(fn, true)
	// string universe
	strs := map[string]bool{}
	for _, a := range args {
		collectStrings(a, strs)
	}
	for _, a := range out.Args {
		collectStrings(a, strs)
	}
	for _, a := range out.Results {
		collectStrings(a, strs)
	}
	// literals of the contract are added lazily by strLit; to keep the order embedding consistent all strings get
	// integers in lexicographic order with gaps, and literal symbols are pinned to their integers afterwards
	// first pass: evaluate clauses once to discover literals
	pre := &concreteHeap{c: c, strID: map[string]int64{}, arrays: map[string]map[string]string{}, visited: map[string]bool{}, times: map[int64]bool{}}
	post := &concreteHeap{c: c, strID: pre.strID, arrays: map[string]map[string]string{}, visited: map[string]bool{}, times: pre.times}
	vars := map[string]TV{}
	mkCtx := func(cur, old *State) *EvalCtx {
		x := fr.evalCtxAt(cur, old, nil, nil)
		for k, v := range vars {
			x.vars[k] = v
		}
		return x
	}
	// declare parameter and result symbols (bound later by equalities)
	for _, p := range fn.Params {
		sym := Term{"p_" + sanitize(p.Name()), c.sortOf(p.Type())}
		c.declare(sym.S, sym.Sort)
		fr.vals[p] = sym
		vars[p.Name()] = TV{sym, p.Type()}
	}
	names := resultNames(fn)
	for i := 0; i < fn.Signature.Results().Len(); i++ {
		rt := fn.Signature.Results().At(i).Type()
		sym := Term{fmt.Sprintf("res_%d", i), c.sortOf(rt)}
		c.declare(sym.S, sym.Sort)
		for _, n := range names[i] {
			vars[n] = TV{sym, rt}
		}
	}
	postState := &State{h: map[string]Term{}}
	preState := &State{h: map[string]Term{}}
	type clauseTerm struct {
		label string
		t     Term
	}
	evalAll := func() []clauseTerm {
		var cts []clauseTerm
		for _, cl := range fc.clauses(kind) {
			if strings.HasPrefix(cl.Label, "callback:") {
				continue
			}
			// post-state heap symbols: name!post
			for name := range c.heapSorts {
				if isLocationHeap(name) || name == "nextRef" {
					postState.h[name] = Term{name + "!post", c.heapSorts[name]}
				}
			}
			cur := postState
			if kind == "requires" {
				cur = preState
			}
			if g, ok := mkCtx(cur, preState).evalBool(cl.Expr); ok {
				cts = append(cts, clauseTerm{cl.Label, g})
			}
		}
		return cts
	}
	_ = evalAll() // discovers heaps and literals
	cts := evalAll()
	for l := range c.lits {
		strs[l] = true
	}
	// byte-slice contents (event payloads) and formatted times join the string universe
	collectBytes := func(sp *spec) {}
	var walk func(sp *spec)
	walk = func(sp *spec) {
		if sp == nil {
			return
		}
		if sp.Kind == "slice" && len(sp.Elems) > 0 && sp.Elems[0].Kind == "int" {
			bs := make([]byte, len(sp.Elems))
			for i, e2 := range sp.Elems {
				bs[i] = byte(e2.Int)
			}
			strs[string(bs)] = true
			// strings inside the JSON payload
			var m map[string]interface{}
			if json.Unmarshal(bs, &m) == nil {
				for _, v := range m {
					if sv, ok := v.(string); ok {
						strs[sv] = true
					}
				}
			}
		}
		if sp.Kind == "time" && sp.Int != 0 {
			strs[time.Unix(0, sp.Int).UTC().Format(time.RFC3339Nano)] = true
		}
		for _, f := range sp.Fields {
			walk(f)
		}
		for _, en := range sp.Entries {
			walk(en[0])
			walk(en[1])
		}
		for _, el := range sp.Elems {
			walk(el)
		}
	}
	_ = collectBytes
	for _, a := range args {
		walk(a)
	}
	for _, a := range out.Args {
		walk(a)
	}
	for _, a := range out.Results {
		walk(a)
	}
	var all []string
	for s := range strs {
		if s != "" {
			all = append(all, s)
		}
	}
	sort.Strings(all)
	for i, s := range all {
		pre.strID[s] = int64(i+1) * 1000
	}
	// bind parameters, results, heaps
	var binds []string
	for i, p := range fn.Params {
		if _, ok := p.Type().Underlying().(*types.Signature); ok {
			continue
		}
		binds = append(binds, fmt.Sprintf("(assert (= p_%s %s))", sanitize(p.Name()), pre.term(args[i], p.Type())))
		if i < len(out.Args) {
			_ = post.term(out.Args[i], p.Type())
		}
	}
	for i := 0; i < fn.Signature.Results().Len(); i++ {
		rt := fn.Signature.Results().At(i).Type()
		if i < len(out.Results) {
			binds = append(binds, fmt.Sprintf("(assert (= res_%d %s))", i, post.term(out.Results[i], rt)))
		}
	}
	// objects reachable before the call keep their pre content in post unless dumped again: post heap = pre heap overridden
	heapTerm := func(h *concreteHeap, base map[string]map[string]string, name string) string {
		sortS := string(c.heapSorts[name])
		if !strings.HasPrefix(sortS, "(Array Int ") {
			return ""
		}
		inner := Sort(strings.TrimSuffix(strings.TrimPrefix(sortS, "(Array Int "), ")"))
		def := c.defaultOfSort(inner)
		t := fmt.Sprintf("((as const %s) %s)", sortS, def)
		merged := map[string]string{}
		for k, v := range base[name] {
			merged[k] = v
		}
		for k, v := range h.arrays[name] {
			merged[k] = v
		}
		var keys []string
		for k := range merged {
			keys = append(keys, k)
		}
		sort.Strings(keys)
		for _, k := range keys {
			t = fmt.Sprintf("(store %s %s %s)", t, k, merged[k])
		}
		return t
	}
	var heapBinds []string
	for name := range c.heapSorts {
		if !isLocationHeap(name) {
			continue
		}
		if t := heapTerm(pre, nil, name); t != "" {
			heapBinds = append(heapBinds, fmt.Sprintf("(assert (= %s %s))", c.heapInit[name].S, t))
		}
		if t := heapTerm(post, pre.arrays, name); t != "" {
			c.declare(name+"!post", c.heapSorts[name])
			heapBinds = append(heapBinds, fmt.Sprintf("(assert (= %s!post %s))", name, t))
		}
	}
	// nextRef: every pre-state object id is below it
	var maxID int64 = 1
	for _, m := range pre.arrays {
		for k := range m {
			if n, err := strconv.ParseInt(k, 10, 64); err == nil && n >= maxID {
				maxID = n + 1
			}
		}
	}
	c.heapVar("nextRef", SInt)
	heapBinds = append(heapBinds, fmt.Sprintf("(assert (= nextRef!0 %d))", maxID))
	c.declare("nextRef!post", SInt)
	heapBinds = append(heapBinds, "(assert (= nextRef!post 100000000))")
	// literal symbols pinned to their integers; uninterpreted string functions pinned on the universe
	var litBinds []string
	for l, sym := range c.lits {
		litBinds = append(litBinds, fmt.Sprintf("(assert (= %s %d))", sym, pre.strID[l]))
	}
	if c.declared["uf_trimSpace"] {
		for _, s := range append([]string{""}, all...) {
			ts := strings.TrimSpace(s)
			if id, ok := pre.strID[ts]; ok || ts == "" {
				litBinds = append(litBinds, fmt.Sprintf("(assert (= (uf_trimSpace %s) %d))", pre.str(s), id))
			}
		}
	}
	// pins for the abstractions of byte contents, JSON decoding and time formatting on the concrete universe
	if c.declared["bcontent"] {
		for _, bsl := range append(append([]byteSlice{}, pre.bytes...), post.bytes...) {
			litBinds = append(litBinds, fmt.Sprintf("(assert (= (bcontent %s %d %d) %s))", bsl.inner, bsl.off, bsl.len, pre.str(bsl.content)))
		}
	}
	for name, si := range c.structs {
		if !c.declared["jsonDec_"+name] || si.typ == nil {
			continue
		}
		st, ok := si.typ.Underlying().(*types.Struct)
		if !ok {
			continue
		}
		for _, content := range all {
			var m map[string]json.RawMessage
			okDec := json.Unmarshal([]byte(content), &m) == nil
			var parts []string
			for i := 0; okDec && i < st.NumFields(); i++ {
				tag := jsonTagName(st.Tag(i), st.Field(i).Name())
				raw, has := m[tag]
				if !has {
					// encoding/json matches keys case-insensitively; payloads written by ergo use exact tags
					parts = append(parts, c.zero(st.Field(i).Type()).S)
					continue
				}
				var sv string
				if json.Unmarshal(raw, &sv) != nil {
					okDec = false
					break
				}
				if _, known := pre.strID[sv]; !known && sv != "" {
					okDec = false // a string outside the universe cannot be named; treat as undecodable (conservative: clause stays undetermined)
					break
				}
				parts = append(parts, pre.str(sv))
			}
			id := pre.str(content)
			if okDec {
				litBinds = append(litBinds, fmt.Sprintf("(assert (and (jsonDecOK_%s %s) (= (jsonDec_%s %s) (mk_%s %s))))", name, id, name, id, si.sort, strings.Join(parts, " ")))
			} else {
				litBinds = append(litBinds, fmt.Sprintf("(assert (not (jsonDecOK_%s %s)))", name, id))
			}
		}
	}
	if c.declared["parseTimeOK"] || c.declared["parseTimeVal"] {
		c.declareFun("parseTimeOK", []Sort{SInt}, SBool)
		c.declareFun("parseTimeVal", []Sort{SInt}, SInt)
		for _, s2 := range append([]string{""}, all...) {
			tm, err := time.Parse(time.RFC3339Nano, s2)
			if err != nil {
				litBinds = append(litBinds, fmt.Sprintf("(assert (not (parseTimeOK %s)))", pre.str(s2)))
				continue
			}
			litBinds = append(litBinds, fmt.Sprintf("(assert (and (parseTimeOK %s) (= (parseTimeVal %s) %s)))", pre.str(s2), pre.str(s2), smtInt(tm.UnixNano())))
		}
	}
	if c.declared["fmtTime"] {
		for tv := range pre.times {
			if tv == 0 {
				continue
			}
			fs := time.Unix(0, tv).UTC().Format(time.RFC3339Nano)
			if _, known := pre.strID[fs]; known {
				litBinds = append(litBinds, fmt.Sprintf("(assert (= (fmtTime %s) %s))", smtInt(tv), pre.str(fs)))
			}
		}
	}
	var failed []string
	var detail strings.Builder
	common := func() string {
		var b strings.Builder
		b.WriteString(c.prelude())
		b.WriteString("(declare-fun strLen (Int) Int)\n")
		for _, d := range c.decls {
			b.WriteString(d + "\n")
		}
		for _, d := range c.asserts {
			b.WriteString("(assert " + d.S + ")\n")
		}
		for _, x := range litBinds {
			b.WriteString(x + "\n")
		}
		for _, x := range binds {
			b.WriteString(x + "\n")
		}
		for _, x := range heapBinds {
			b.WriteString(x + "\n")
		}
		return b.String()
	}
	if len(cts) > 1 {
		var all []Term
		for _, ct := range cts {
			all = append(all, ct.t)
		}
		q := common() + "(assert (not " + And(all...).S + "))\n"
		r := runSingle(scratch, "concrete_all_"+sanitize(funcKey(fn)), q, 10)
		if r.Status == "unsat" {
			return nil, "  all " + kind + " clauses hold on the observed run\n"
		}
	}
	for _, ct := range cts {
		var b strings.Builder
		b.WriteString(c.prelude())
		b.WriteString("(declare-fun strLen (Int) Int)\n")
		for _, d := range c.decls {
			b.WriteString(d + "\n")
		}
		for _, d := range c.asserts {
			// ground facts produced during evaluation (card axioms, elemsOf definitions, ...)
			b.WriteString("(assert " + d.S + ")\n")
		}
		for _, x := range litBinds {
			b.WriteString(x + "\n")
		}
		for _, x := range binds {
			b.WriteString(x + "\n")
		}
		for _, x := range heapBinds {
			b.WriteString(x + "\n")
		}
		b.WriteString("(assert (not " + ct.t.S + "))\n")
		r := runSingle(scratch, "concrete_"+sanitize(funcKey(fn))+"_"+sanitize(ct.label), b.String(), 10)
		fmt.Fprintf(&detail, "  %s[%s] on the observed run: %s\n", kind, ct.label, map[string]string{"sat": "VIOLATED", "unsat": "holds"}[r.Status]+" ("+r.Status+")")
		if r.Status == "sat" {
			failed = append(failed, kind+"["+ct.label+"]")
		}
	}
	return failed, detail.String()
}

func (c *Enc) defaultOfSort(s Sort) string {
	if strings.HasPrefix(string(s), "S_") {
		if si, ok := c.structs[strings.TrimPrefix(string(s), "S_")]; ok && si.typ != nil {
			return c.zero(si.typ).S
		}
	}
	switch {
	case s == SBool:
		return "false"
	case s == SInt:
		return "0"
	case s == SSlice:
		return "(mk-slice 0 0 0 0)"
	case s == SUnit:
		return "unit"
	case s == SAny:
		return "any_nil"
	case strings.HasPrefix(string(s), "(Array "):
		// (Array K V) -> const default of V
		inner := string(s)
		// find value sort: last top-level element
		body := strings.TrimSuffix(strings.TrimPrefix(inner, "(Array "), ")")
		// split at top level
		depth := 0
		split := -1
		for i := 0; i < len(body); i++ {
			switch body[i] {
			case '(':
				depth++
			case ')':
				depth--
			case ' ':
				if depth == 0 && split < 0 {
					split = i
				}
			}
		}
		v := Sort(strings.TrimSpace(body[split+1:]))
		return fmt.Sprintf("((as const %s) %s)", inner, c.defaultOfSort(v))
	}
	return "0"
}

// registerTypeHeaps declares the heap arrays of every type reachable from t.
func (c *Enc) registerTypeHeaps(t types.Type, seen map[string]bool) {
	key := typeKey(t)
	if seen[key] || isTimeType(t) || isErrorType(t) {
		return
	}
	seen[key] = true
	switch u := t.Underlying().(type) {
	case *types.Pointer:
		if st, ok := isStructPtr(t); ok {
			si := c.structInfoOf(st)
			for i, f := range si.fields {
				c.fieldHeap(st, i)
				c.registerTypeHeaps(f.typ, seen)
			}
		} else {
			c.boxHeap(u.Elem())
			c.registerTypeHeaps(u.Elem(), seen)
		}
	case *types.Map:
		c.mapHeaps(t)
		c.registerTypeHeaps(u.Key(), seen)
		c.registerTypeHeaps(u.Elem(), seen)
	case *types.Slice:
		c.elemHeap(u.Elem())
		c.registerTypeHeaps(u.Elem(), seen)
	case *types.Struct:
		if u.NumFields() > 0 {
			si := c.structInfoOf(t)
			for _, f := range si.fields {
				c.registerTypeHeaps(f.typ, seen)
			}
		}
	}
}

func jsonTagName(tag, field string) string {
	// `json:"name,omitempty"`
	idx := strings.Index(tag, `json:"`)
	if idx < 0 {
		return field
	}
	rest := tag[idx+6:]
	end := strings.Index(rest, `"`)
	if end < 0 {
		return field
	}
	name := strings.Split(rest[:end], ",")[0]
	if name == "" {
		return field
	}
	return name
}
