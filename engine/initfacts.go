package main

import (
	"fmt"
	"go/types"
	"strings"

	"golang.org/x/tools/go/ssa"
)

// initFacts assumes, about the entry state of the function being verified, what the
// package initialiser established for package-level variables that nothing else writes.
func (c *Enc) initFacts() {
	if c.initDone {
		return
	}
	c.initDone = true
	initFn := c.eng.pkg.Func("init")
	if initFn == nil || len(initFn.Blocks) < 2 {
		return
	}
	// The initialiser is interpreted with Go-level data structures (it is straight-line code that builds
	// literals), and only the final content of each object is asserted about the entry state.
	type obj struct {
		ref   Term
		kind  string // map | array
		typ   types.Type
		keys  []Term
		vals  map[string]Term
		elems map[int64]Term
	}
	vals := map[ssa.Value]Term{}
	objs := map[ssa.Value]*obj{}
	var order []*obj
	elemAddr := map[ssa.Value]struct {
		o *obj
		i int64
	}{}
	c.heapVar("nextRef", SInt)
	prev := IntLit(0)
	newObj := func(v ssa.Value, kind string, t types.Type) *obj {
		c.n++
		r := Term{fmt.Sprintf("initref!%d", c.n), SInt}
		c.declare(r.S, SInt)
		c.assert(And(Lt(prev, r), Lt(r, c.heapInit["nextRef"])))
		prev = r
		o := &obj{ref: r, kind: kind, typ: t, vals: map[string]Term{}, elems: map[int64]Term{}}
		objs[v] = o
		order = append(order, o)
		vals[v] = r
		return o
	}
	val := func(v ssa.Value) (Term, bool) {
		if k, ok := v.(*ssa.Const); ok {
			return c.constTerm(k), true
		}
		t, ok := vals[v]
		return t, ok
	}
	supported := true
	for _, ins := range initFn.Blocks[1].Instrs {
		switch x := ins.(type) {
		case *ssa.DebugRef, *ssa.Jump, *ssa.If, *ssa.Return:
		case *ssa.Call:
			callee := x.Common().StaticCallee()
			if callee != nil && callee.Name() == "init" {
				continue
			}
			if callee != nil && callee.String() == "errors.New" {
				e := c.fresh("err", SInt)
				c.declareFun("errMsg", []Sort{SInt}, SInt)
				msg, _ := val(x.Common().Args[0])
				c.assert(And(Not(Eq(e, IntLit(0))), Eq(Term{app("errMsg", e), SInt}, msg)))
				vals[x] = e
				continue
			}
			supported = false
		case *ssa.Alloc:
			elem := x.Type().Underlying().(*types.Pointer).Elem()
			if arr, ok := elem.Underlying().(*types.Array); ok {
				newObj(x, "array", arr.Elem())
			} else {
				supported = false
			}
		case *ssa.IndexAddr:
			o, ok := objs[x.X]
			k, isConst := x.Index.(*ssa.Const)
			if !ok || !isConst {
				supported = false
				continue
			}
			elemAddr[x] = struct {
				o *obj
				i int64
			}{o, k.Int64()}
		case *ssa.MakeMap:
			newObj(x, "map", x.Type())
		case *ssa.MapUpdate:
			o, ok := objs[x.Map]
			k, okk := val(x.Key)
			if !ok || !okk {
				supported = false
				continue
			}
			if _, seen := o.vals[k.S]; !seen {
				o.keys = append(o.keys, k)
			}
			v, _ := val(x.Value)
			o.vals[k.S] = v
		case *ssa.Slice:
			o, ok := objs[x.X]
			if !ok || x.Low != nil || x.High != nil {
				supported = false
				continue
			}
			n := x.X.Type().Underlying().(*types.Pointer).Elem().Underlying().(*types.Array).Len()
			vals[x] = Term{app("mk-slice", o.ref, IntLit(0), IntLit(n), IntLit(n)), SSlice}
		case *ssa.Store:
			if g, ok := x.Addr.(*ssa.Global); ok {
				if strings.HasPrefix(g.Name(), "init$") {
					continue
				}
				v, okv := val(x.Val)
				if !okv {
					supported = false
					continue
				}
				if c.eng.globalReadOnly(g) {
					name := c.cellVar("GL_"+g.Name(), g.Type().(*types.Pointer).Elem())
					c.assert(Eq(c.heapInit[name], v))
					c.notes = append(c.notes, "package variable "+g.Name()+": initial value taken from the package initialiser; no other write found in the package (checked syntactically)")
				}
				continue
			}
			if ea, ok := elemAddr[x.Addr]; ok {
				v, _ := val(x.Val)
				ea.o.elems[ea.i] = v
				continue
			}
			supported = false
		default:
			supported = false
		}
	}
	if !supported {
		c.notes = append(c.notes, "package initialiser contains statements the init-fact interpreter does not support; unsupported parts are ignored (fewer facts, still sound)")
	}
	for _, o := range order {
		switch o.kind {
		case "map":
			dom, valH, ks, vs := c.mapHeaps(o.typ)
			set := Term{fmt.Sprintf("((as const %s) false)", ArraySort(ks, SBool)), ArraySort(ks, SBool)}
			for _, k := range o.keys {
				set = Store(set, k, True)
			}
			c.assert(Eq(Select(c.heapInit[dom], o.ref, ArraySort(ks, SBool)), set))
			if vs != SUnit {
				for _, k := range o.keys {
					c.assert(Eq(Select(Select(c.heapInit[valH], o.ref, ArraySort(ks, vs)), k, vs), o.vals[k.S]))
				}
			}
		case "array":
			heap, es := c.elemHeap(o.typ)
			for i, v := range o.elems {
				c.assert(Eq(Select(Select(c.heapInit[heap], o.ref, ArraySort(SInt, es)), IntLit(i), es), v))
			}
		}
	}
}

// globalReadOnly: no store to g outside init, and map/slice values loaded from it are only read.
func (e *Engine) globalReadOnly(g *ssa.Global) bool {
	if v, ok := e.roMemo[g]; ok {
		return v
	}
	ok := true
	var readOnlyUse func(v ssa.Value, depth int) bool
	readOnlyUse = func(v ssa.Value, depth int) bool {
		if depth > 4 {
			return false
		}
		refs := v.Referrers()
		if refs == nil {
			return true
		}
		for _, r := range *refs {
			switch u := r.(type) {
			case *ssa.DebugRef, *ssa.BinOp, *ssa.Range, *ssa.Return:
				if _, isRet := r.(*ssa.Return); isRet {
					if _, isMap := v.Type().Underlying().(*types.Map); isMap {
						return false
					}
				}
			case *ssa.Lookup:
				if u.X != v {
					continue
				}
				if _, isMap := u.Type().Underlying().(*types.Map); isMap {
					if !readOnlyUse(u, depth+1) {
						return false
					}
				}
				if tup, isTup := u.Type().(*types.Tuple); isTup {
					if _, isMap := tup.At(0).Type().Underlying().(*types.Map); isMap {
						for _, er := range *u.Referrers() {
							if ex, ok := er.(*ssa.Extract); ok && ex.Index == 0 {
								if !readOnlyUse(ex, depth+1) {
									return false
								}
							}
						}
					}
				}
			case *ssa.Call:
				if b, isB := u.Common().Value.(*ssa.Builtin); isB && (b.Name() == "len" || b.Name() == "cap") {
					continue
				}
				if isErrorType(v.Type()) {
					continue
				}
				// passing a slice/map to a function: accept only known non-mutating callees
				if callee := u.Common().StaticCallee(); callee != nil {
					switch callee.String() {
					case "strings.Join", "errors.Is":
						continue
					}
					if callee.Pkg == e.pkg {
						// conservatively scan: parameter must be read-only in the callee
						for i, a := range u.Common().Args {
							if a == v && i < len(callee.Params) {
								if !readOnlyUse(callee.Params[i], depth+1) {
									return false
								}
							}
						}
						continue
					}
				}
				return false
			case *ssa.IndexAddr:
				// element address: must only be loaded
				for _, er := range *u.Referrers() {
					if _, isLoad := er.(*ssa.UnOp); !isLoad {
						if _, isDbg := er.(*ssa.DebugRef); !isDbg {
							return false
						}
					}
				}
			case *ssa.MakeInterface, *ssa.Phi, *ssa.Extract, *ssa.If, *ssa.Next:
			case *ssa.Slice:
				if !readOnlyUse(u, depth+1) {
					return false
				}
			default:
				return false
			}
		}
		return true
	}
	for _, fn := range e.funcs {
		if fn.Name() == "init" && fn.Parent() == nil {
			continue
		}
		for _, b := range fn.Blocks {
			for _, ins := range b.Instrs {
				for _, op := range ins.Operands(nil) {
					if *op != ssa.Value(g) {
						continue
					}
					load, isLoad := ins.(*ssa.UnOp)
					if !isLoad {
						ok = false
						continue
					}
					// immutable values (errors, strings, numbers): only a store to the variable itself matters
					switch g.Type().(*types.Pointer).Elem().Underlying().(type) {
					case *types.Map, *types.Slice, *types.Pointer:
						if !readOnlyUse(load, 0) {
							ok = false
						}
					}
				}
			}
		}
	}
	if e.roMemo == nil {
		e.roMemo = map[*ssa.Global]bool{}
	}
	e.roMemo[g] = ok
	return ok
}
