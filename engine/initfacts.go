package main

import (
	"go/types"
	"strings"

	"golang.org/x/tools/go/ssa"
)

// initFacts assumes, about the entry state of the function being verified, what the
// package initialiser established for package-level variables that nothing else writes.
func (c *Enc) initFacts() {
	if c.initDone {
		return
	}
	c.initDone = true
	initFn := c.eng.pkg.Func("init")
	if initFn == nil || len(initFn.Blocks) < 2 {
		return
	}
	fr := c.newFrame(initFn, false)
	c.frameDepth--
	fr.id = "init_"
	st := &State{h: map[string]Term{}, pre: true}
	c.heapVar("nextRef", SInt)
	c.allocLog = []Term{}
	defer func() { c.allocLog = nil }()
	savedSafe := c.obls
	savedCount := map[string]int{}
	for k, v := range c.safeCount {
		savedCount[k] = v
	}
	for _, ins := range initFn.Blocks[1].Instrs {
		switch x := ins.(type) {
		case *ssa.Call:
			if callee := x.Common().StaticCallee(); callee != nil && callee.Name() == "init" {
				continue
			}
			fr.encodeInstr(ins, True, st)
		case *ssa.Store:
			if g, ok := x.Addr.(*ssa.Global); ok && strings.HasPrefix(g.Name(), "init$") {
				continue
			}
			fr.encodeInstr(ins, True, st)
		case *ssa.Jump, *ssa.If, *ssa.Return:
		default:
			fr.encodeInstr(ins, True, st)
		}
	}
	// obligations generated while replaying init (index checks on literals) are not the function's
	c.obls = savedSafe
	c.safeCount = savedCount
	allocs := c.allocLog
	for _, k := range sortedKeysOf(keysOfState(st)) {
		final := st.h[k]
		init := c.heapInit[k]
		switch {
		case strings.HasPrefix(k, "GL_"):
			name := strings.TrimPrefix(k, "GL_")
			if g, ok := c.eng.pkg.Members[name].(*ssa.Global); ok && c.eng.globalReadOnly(g) {
				c.assert(Eq(init, final))
				c.notes = append(c.notes, "package variable "+name+": initial value taken from the package initialiser; no other write found in the package (checked syntactically)")
			}
		case isLocationHeap(k):
			for _, r := range allocs {
				c.assert(Eq(Term{app("select", init, r), ""}, Term{app("select", final, r), ""}))
			}
		case k == "nextRef":
			c.assert(Le(final, init))
		}
	}
}

// globalReadOnly: no store to g outside init, and map/slice values loaded from it are only read.
func (e *Engine) globalReadOnly(g *ssa.Global) bool {
	if v, ok := e.roMemo[g]; ok {
		return v
	}
	ok := true
	var readOnlyUse func(v ssa.Value, depth int) bool
	readOnlyUse = func(v ssa.Value, depth int) bool {
		if depth > 4 {
			return false
		}
		refs := v.Referrers()
		if refs == nil {
			return true
		}
		for _, r := range *refs {
			switch u := r.(type) {
			case *ssa.DebugRef, *ssa.BinOp, *ssa.Range, *ssa.Return:
				if _, isRet := r.(*ssa.Return); isRet {
					if _, isMap := v.Type().Underlying().(*types.Map); isMap {
						return false
					}
				}
			case *ssa.Lookup:
				if u.X != v {
					continue
				}
				if _, isMap := u.Type().Underlying().(*types.Map); isMap {
					if !readOnlyUse(u, depth+1) {
						return false
					}
				}
				if tup, isTup := u.Type().(*types.Tuple); isTup {
					if _, isMap := tup.At(0).Type().Underlying().(*types.Map); isMap {
						for _, er := range *u.Referrers() {
							if ex, ok := er.(*ssa.Extract); ok && ex.Index == 0 {
								if !readOnlyUse(ex, depth+1) {
									return false
								}
							}
						}
					}
				}
			case *ssa.Call:
				if b, isB := u.Common().Value.(*ssa.Builtin); isB && (b.Name() == "len" || b.Name() == "cap") {
					continue
				}
				if isErrorType(v.Type()) {
					continue
				}
				// passing a slice/map to a function: accept only known non-mutating callees
				if callee := u.Common().StaticCallee(); callee != nil {
					switch callee.String() {
					case "strings.Join", "errors.Is":
						continue
					}
					if callee.Pkg == e.pkg {
						// conservatively scan: parameter must be read-only in the callee
						for i, a := range u.Common().Args {
							if a == v && i < len(callee.Params) {
								if !readOnlyUse(callee.Params[i], depth+1) {
									return false
								}
							}
						}
						continue
					}
				}
				return false
			case *ssa.IndexAddr:
				// element address: must only be loaded
				for _, er := range *u.Referrers() {
					if _, isLoad := er.(*ssa.UnOp); !isLoad {
						if _, isDbg := er.(*ssa.DebugRef); !isDbg {
							return false
						}
					}
				}
			case *ssa.MakeInterface, *ssa.Phi, *ssa.Extract, *ssa.If, *ssa.Next:
			case *ssa.Slice:
				if !readOnlyUse(u, depth+1) {
					return false
				}
			default:
				return false
			}
		}
		return true
	}
	for _, fn := range e.funcs {
		if fn.Name() == "init" && fn.Parent() == nil {
			continue
		}
		for _, b := range fn.Blocks {
			for _, ins := range b.Instrs {
				for _, op := range ins.Operands(nil) {
					if *op != ssa.Value(g) {
						continue
					}
					load, isLoad := ins.(*ssa.UnOp)
					if !isLoad {
						ok = false
						continue
					}
					if !readOnlyUse(load, 0) {
						ok = false
					}
				}
			}
		}
	}
	if e.roMemo == nil {
		e.roMemo = map[*ssa.Global]bool{}
	}
	e.roMemo[g] = ok
	return ok
}
