package main

import (
	"fmt"
	"os"
	"strconv"
	"strings"
	"unicode"
)

// ---------------------------------------------------------------------------
// Contract file structure

type Clause struct {
	Kind  string // requires | ensures | invariant | step | decreases | assume
	Label string
	Uses  []string
	Text  string
	Expr  *Expr
	Line  int
}

type LoopContract struct {
	Ordinal int
	Hint    string
	Clauses []*Clause
}

type FuncContract struct {
	Name     string
	Clauses  []*Clause
	Modifies []ModEntry // heap patterns; nil = not declared (defaults to nothing)
	Loops    map[int]*LoopContract
	Inline   bool
	Trusted  string // non-empty: body not verified, reason
	Pure     bool
	Line     int
	Lemma    bool
	Options  map[string]bool
}

// ModEntry is one entry of a modifies clause: a heap pattern, optionally restricted to the object
// denoted by At ("modifies []*Task at tasks": only the backing array of tasks).
type ModEntry struct {
	Pat string
	At  *Expr
}

type SpecFunc struct {
	Name   string
	Params []SpecParam
	Result string // type text
	Body   *Expr
	Text   string
	Line   int
}

type SpecParam struct {
	Name string
	Type string
}

type UFun struct {
	Name   string
	Params []SpecParam
	Result string
	Reason string
	Axioms []*Clause
}

type GhostVar struct {
	Name string
	Type string
	Line int
}

type ContractFile struct {
	Funcs  map[string]*FuncContract
	Specs  map[string]*SpecFunc
	UFuns  map[string]*UFun
	Ghosts map[string]*GhostVar
	Axioms []*Clause
	Order  []string
}

func (fc *FuncContract) clauses(kind string) []*Clause {
	var out []*Clause
	for _, c := range fc.Clauses {
		if c.Kind == kind {
			out = append(out, c)
		}
	}
	return out
}

var clauseKeywords = map[string]bool{
	"requires": true, "ensures": true, "invariant": true, "step": true, "decreases": true,
	"modifies": true, "func": true, "spec": true, "loop": true, "inline": true, "trusted": true,
	"ufun": true, "ghost": true, "option": true, "canary": true, "callpre": true, "axiom": true, "lemma": true, "pure": true, "assume": true, "end": true,
}

// parseContractFile reads //@ lines.
func parseContractFile(path string) (*ContractFile, error) {
	data, err := os.ReadFile(path)
	if err != nil {
		return nil, err
	}
	cf := &ContractFile{Funcs: map[string]*FuncContract{}, Specs: map[string]*SpecFunc{}, UFuns: map[string]*UFun{}, Ghosts: map[string]*GhostVar{}}
	type rawLine struct {
		text string
		line int
	}
	var items []rawLine // logical items (keyword-led), continuation lines joined
	for i, line := range strings.Split(string(data), "\n") {
		t := strings.TrimSpace(line)
		if !strings.HasPrefix(t, "//@") {
			continue
		}
		body := strings.TrimSpace(strings.TrimPrefix(t, "//@"))
		if body == "" || strings.HasPrefix(body, "//") || strings.HasPrefix(body, "#") {
			continue
		}
		// strip trailing comment " // ..."
		if idx := strings.Index(body, " // "); idx >= 0 {
			body = strings.TrimSpace(body[:idx])
		}
		first := body
		if idx := strings.IndexAny(body, " \t"); idx >= 0 {
			first = body[:idx]
		}
		if clauseKeywords[first] {
			items = append(items, rawLine{body, i + 1})
		} else if len(items) > 0 {
			items[len(items)-1].text += " " + body
		} else {
			return nil, fmt.Errorf("%s:%d: continuation line without a clause", path, i+1)
		}
	}
	var curFunc *FuncContract
	var curLoop *LoopContract
	var curUFun *UFun
	for _, it := range items {
		kw, rest := splitFirst(it.text)
		switch kw {
		case "func", "lemma":
			name := strings.TrimSpace(rest)
			if _, dup := cf.Funcs[name]; dup {
				return nil, fmt.Errorf("line %d: duplicate contract for %s", it.line, name)
			}
			curFunc = &FuncContract{Name: name, Loops: map[int]*LoopContract{}, Line: it.line, Lemma: kw == "lemma"}
			cf.Funcs[name] = curFunc
			cf.Order = append(cf.Order, name)
			curLoop = nil
			curUFun = nil
		case "loop":
			if curFunc == nil {
				return nil, fmt.Errorf("line %d: loop outside func", it.line)
			}
			ordS, hint := splitFirst(rest)
			ord, err := strconv.Atoi(ordS)
			if err != nil {
				return nil, fmt.Errorf("line %d: bad loop ordinal %q", it.line, ordS)
			}
			curLoop = &LoopContract{Ordinal: ord, Hint: hint}
			curFunc.Loops[ord] = curLoop
		case "requires", "ensures", "invariant", "step", "decreases", "assume", "canary", "callpre":
			label, text := "", rest
			if strings.HasPrefix(rest, "[") {
				end := strings.Index(rest, "]")
				if end < 0 {
					return nil, fmt.Errorf("line %d: unterminated label", it.line)
				}
				label = rest[1:end]
				text = strings.TrimSpace(rest[end+1:])
			}
			// [label:dep1,dep2] names the clauses (of this contract or of callees) the proof of this clause
			// relies on besides the clause itself; it selects assumptions for the narrowest query variant
			var uses []string
			if i := strings.Index(label, ":"); i >= 0 && !strings.HasPrefix(label, "callback:") {
				for _, u := range strings.Split(label[i+1:], ",") {
					if u = strings.TrimSpace(u); u != "" {
						uses = append(uses, u)
					}
				}
				label = strings.TrimSpace(label[:i])
			}
			ex, err := parseExpr(text)
			if err != nil {
				return nil, fmt.Errorf("line %d: %v in %q", it.line, err, text)
			}
			cl := &Clause{Kind: kw, Label: label, Uses: uses, Text: text, Expr: ex, Line: it.line}
			if kw == "invariant" || kw == "step" {
				if curLoop == nil {
					return nil, fmt.Errorf("line %d: %s outside loop", it.line, kw)
				}
				curLoop.Clauses = append(curLoop.Clauses, cl)
			} else {
				if curFunc == nil {
					return nil, fmt.Errorf("line %d: %s outside func", it.line, kw)
				}
				if curLoop != nil && kw == "decreases" {
					curLoop.Clauses = append(curLoop.Clauses, cl)
				} else {
					curFunc.Clauses = append(curFunc.Clauses, cl)
				}
			}
		case "modifies":
			if curFunc == nil {
				return nil, fmt.Errorf("line %d: modifies outside func", it.line)
			}
			if curFunc.Modifies == nil {
				curFunc.Modifies = []ModEntry{}
			}
			for _, p := range splitTopLevel(rest, ',') {
				p = strings.TrimSpace(p)
				if p == "" || p == "nothing" {
					continue
				}
				me := ModEntry{Pat: p}
				if idx := strings.Index(p, " at "); idx > 0 {
					ex, err := parseExpr(strings.TrimSpace(p[idx+4:]))
					if err != nil {
						return nil, fmt.Errorf("line %d: %v", it.line, err)
					}
					me = ModEntry{Pat: strings.TrimSpace(p[:idx]), At: ex}
				}
				curFunc.Modifies = append(curFunc.Modifies, me)
			}
		case "inline":
			if curFunc == nil {
				return nil, fmt.Errorf("line %d: inline outside func", it.line)
			}
			curFunc.Inline = true
		case "pure":
			curFunc.Pure = true
		case "option":
			if curFunc == nil {
				return nil, fmt.Errorf("line %d: option outside func", it.line)
			}
			if curFunc.Options == nil {
				curFunc.Options = map[string]bool{}
			}
			for _, o := range strings.Fields(rest) {
				curFunc.Options[o] = true
			}
		case "trusted":
			if curUFun != nil {
				curUFun.Reason = rest
			} else if curFunc != nil {
				curFunc.Trusted = rest
				if rest == "" {
					curFunc.Trusted = "unspecified"
				}
			}
		case "spec":
			sf, err := parseSpecHeader(rest)
			if err != nil {
				return nil, fmt.Errorf("line %d: %v", it.line, err)
			}
			sf.Line = it.line
			cf.Specs[sf.Name] = sf
			curFunc, curLoop, curUFun = nil, nil, nil
		case "ufun":
			sf, err := parseSpecHeader(rest + " = true")
			if err != nil {
				return nil, fmt.Errorf("line %d: %v", it.line, err)
			}
			curUFun = &UFun{Name: sf.Name, Params: sf.Params, Result: sf.Result}
			cf.UFuns[sf.Name] = curUFun
			curFunc, curLoop = nil, nil
		case "axiom":
			label, text := "", rest
			if strings.HasPrefix(rest, "[") {
				end := strings.Index(rest, "]")
				label = rest[1:end]
				text = strings.TrimSpace(rest[end+1:])
			}
			ex, err := parseExpr(text)
			if err != nil {
				return nil, fmt.Errorf("line %d: %v in %q", it.line, err, text)
			}
			cf.Axioms = append(cf.Axioms, &Clause{Kind: "axiom", Label: label, Text: text, Expr: ex, Line: it.line})
		case "ghost":
			name, typ := splitFirst(rest)
			cf.Ghosts[name] = &GhostVar{Name: name, Type: strings.TrimSpace(typ), Line: it.line}
		case "end":
			curFunc, curLoop, curUFun = nil, nil, nil
		}
	}
	return cf, nil
}

func splitFirst(s string) (string, string) {
	s = strings.TrimSpace(s)
	idx := strings.IndexAny(s, " \t")
	if idx < 0 {
		return s, ""
	}
	return s[:idx], strings.TrimSpace(s[idx+1:])
}

// parseSpecHeader parses "name(p T, q U) R = expr".
func parseSpecHeader(s string) (*SpecFunc, error) {
	open := strings.Index(s, "(")
	if open < 0 {
		return nil, fmt.Errorf("spec: missing (")
	}
	name := strings.TrimSpace(s[:open])
	depth := 0
	closeIdx := -1
	for i := open; i < len(s); i++ {
		if s[i] == '(' {
			depth++
		} else if s[i] == ')' {
			depth--
			if depth == 0 {
				closeIdx = i
				break
			}
		}
	}
	if closeIdx < 0 {
		return nil, fmt.Errorf("spec %s: missing )", name)
	}
	params, err := parseParamList(s[open+1 : closeIdx])
	if err != nil {
		return nil, fmt.Errorf("spec %s: %v", name, err)
	}
	rest := s[closeIdx+1:]
	eq := strings.Index(rest, "=")
	if eq < 0 {
		return nil, fmt.Errorf("spec %s: missing =", name)
	}
	res := strings.TrimSpace(rest[:eq])
	bodyText := strings.TrimSpace(rest[eq+1:])
	body, err := parseExpr(bodyText)
	if err != nil {
		return nil, fmt.Errorf("spec %s: %v", name, err)
	}
	return &SpecFunc{Name: name, Params: params, Result: res, Body: body, Text: bodyText}, nil
}

// parseParamList parses "a, b string, c *Task".
func parseParamList(s string) ([]SpecParam, error) {
	var out []SpecParam
	var pendingNames []string
	for _, part := range splitTopLevel(s, ',') {
		part = strings.TrimSpace(part)
		if part == "" {
			continue
		}
		name, typ := splitFirst(part)
		if typ == "" {
			pendingNames = append(pendingNames, name)
			continue
		}
		for _, n := range pendingNames {
			out = append(out, SpecParam{n, typ})
		}
		pendingNames = nil
		out = append(out, SpecParam{name, typ})
	}
	if len(pendingNames) > 0 {
		return nil, fmt.Errorf("parameters without type: %v", pendingNames)
	}
	return out, nil
}

func splitTopLevel(s string, sep byte) []string {
	var out []string
	depth := 0
	start := 0
	for i := 0; i < len(s); i++ {
		switch s[i] {
		case '(', '[', '{':
			depth++
		case ')', ']', '}':
			depth--
		default:
			if s[i] == sep && depth == 0 {
				out = append(out, s[start:i])
				start = i + 1
			}
		}
	}
	out = append(out, s[start:])
	return out
}

// ---------------------------------------------------------------------------
// Expression AST

type Expr struct {
	Op    string // ident, int, str, bool, nil, call, sel, index, unary, binary, quant, old
	Name  string // ident name, field, operator, callee, quantifier kind
	Args  []*Expr
	Binds []SpecParam // quantifier binders
	Pats  [][]*Expr   // quantifier patterns
	Int   int64
	Str   string
}

func (e *Expr) String() string {
	switch e.Op {
	case "ident":
		return e.Name
	case "int":
		return fmt.Sprint(e.Int)
	case "str":
		return strconv.Quote(e.Str)
	case "bool":
		return e.Name
	case "nil":
		return "nil"
	case "call":
		parts := []string{}
		for _, a := range e.Args {
			parts = append(parts, a.String())
		}
		return e.Name + "(" + strings.Join(parts, ", ") + ")"
	case "sel":
		return e.Args[0].String() + "." + e.Name
	case "index":
		return e.Args[0].String() + "[" + e.Args[1].String() + "]"
	case "unary":
		return e.Name + e.Args[0].String()
	case "binary":
		return "(" + e.Args[0].String() + " " + e.Name + " " + e.Args[1].String() + ")"
	case "quant":
		bs := []string{}
		for _, b := range e.Binds {
			bs = append(bs, b.Name+" "+b.Type)
		}
		return "(" + e.Name + " " + strings.Join(bs, ", ") + " :: " + e.Args[0].String() + ")"
	case "old":
		return "old(" + e.Args[0].String() + ")"
	}
	return "?"
}

type tok struct {
	kind string // ident int str op eof
	text string
	pos  int
}

type exprParser struct {
	toks []tok
	pos  int
	src  string
}

func lexExpr(s string) ([]tok, error) {
	var toks []tok
	i := 0
	for i < len(s) {
		c := rune(s[i])
		switch {
		case unicode.IsSpace(c):
			i++
		case unicode.IsLetter(c) || c == '_':
			j := i
			for j < len(s) && (unicode.IsLetter(rune(s[j])) || unicode.IsDigit(rune(s[j])) || s[j] == '_') {
				j++
			}
			toks = append(toks, tok{"ident", s[i:j], i})
			i = j
		case unicode.IsDigit(c):
			j := i
			for j < len(s) && unicode.IsDigit(rune(s[j])) {
				j++
			}
			toks = append(toks, tok{"int", s[i:j], i})
			i = j
		case c == '"':
			j := i + 1
			for j < len(s) && s[j] != '"' {
				if s[j] == '\\' {
					j++
				}
				j++
			}
			if j >= len(s) {
				return nil, fmt.Errorf("unterminated string at %d", i)
			}
			str, err := strconv.Unquote(s[i : j+1])
			if err != nil {
				return nil, fmt.Errorf("bad string literal %s", s[i:j+1])
			}
			toks = append(toks, tok{"str", str, i})
			i = j + 1
		default:
			ops := []string{"<==>", "==>", "::", "&&", "||", "==", "!=", "<=", ">=", "<", ">", "!", "+", "-", "*", "(", ")", "[", "]", ",", ".", "{", "}", ":"}
			matched := false
			for _, op := range ops {
				if strings.HasPrefix(s[i:], op) {
					toks = append(toks, tok{"op", op, i})
					i += len(op)
					matched = true
					break
				}
			}
			if !matched {
				return nil, fmt.Errorf("unexpected character %q at %d", c, i)
			}
		}
	}
	toks = append(toks, tok{"eof", "", len(s)})
	return toks, nil
}

func parseExpr(s string) (*Expr, error) {
	toks, err := lexExpr(s)
	if err != nil {
		return nil, err
	}
	p := &exprParser{toks: toks, src: s}
	e, err := p.parseImplies()
	if err != nil {
		return nil, err
	}
	if p.peek().kind != "eof" {
		return nil, fmt.Errorf("unexpected %q at %d", p.peek().text, p.peek().pos)
	}
	return e, nil
}

func (p *exprParser) peek() tok { return p.toks[p.pos] }
func (p *exprParser) next() tok { t := p.toks[p.pos]; p.pos++; return t }
func (p *exprParser) isOp(op string) bool {
	t := p.peek()
	return t.kind == "op" && t.text == op
}
func (p *exprParser) expectOp(op string) error {
	if !p.isOp(op) {
		return fmt.Errorf("expected %q at %d, found %q", op, p.peek().pos, p.peek().text)
	}
	p.next()
	return nil
}

// precedence: <==> < ==> (right assoc) < || < && < comparison < + - < * < unary < postfix
func (p *exprParser) parseImplies() (*Expr, error) {
	if t := p.peek(); t.kind == "ident" && (t.text == "forall" || t.text == "exists") {
		return p.parseQuant()
	}
	lhs, err := p.parseOr()
	if err != nil {
		return nil, err
	}
	if p.isOp("==>") {
		p.next()
		rhs, err := p.parseImplies()
		if err != nil {
			return nil, err
		}
		return &Expr{Op: "binary", Name: "==>", Args: []*Expr{lhs, rhs}}, nil
	}
	if p.isOp("<==>") {
		p.next()
		rhs, err := p.parseImplies()
		if err != nil {
			return nil, err
		}
		return &Expr{Op: "binary", Name: "<==>", Args: []*Expr{lhs, rhs}}, nil
	}
	return lhs, nil
}

func (p *exprParser) parseQuant() (*Expr, error) {
	kind := p.next().text
	// binders up to "::"; collect raw text between
	start := p.peek().pos
	depth := 0
	for {
		t := p.peek()
		if t.kind == "eof" {
			return nil, fmt.Errorf("quantifier without ::")
		}
		if t.kind == "op" && t.text == "::" && depth == 0 {
			break
		}
		if t.kind == "op" && (t.text == "(" || t.text == "[" || t.text == "{") {
			depth++
		}
		if t.kind == "op" && (t.text == ")" || t.text == "]" || t.text == "}") {
			depth--
		}
		p.next()
	}
	bindText := p.src[start:p.peek().pos]
	p.next() // ::
	binds, err := parseParamList(bindText)
	if err != nil {
		return nil, err
	}
	q := &Expr{Op: "quant", Name: kind, Binds: binds}
	// optional patterns { e1, e2 } { e3 }
	for p.isOp("{") {
		p.next()
		var pat []*Expr
		for {
			e, err := p.parseOr()
			if err != nil {
				return nil, err
			}
			pat = append(pat, e)
			if p.isOp(",") {
				p.next()
				continue
			}
			break
		}
		if err := p.expectOp("}"); err != nil {
			return nil, err
		}
		q.Pats = append(q.Pats, pat)
	}
	body, err := p.parseImplies()
	if err != nil {
		return nil, err
	}
	q.Args = []*Expr{body}
	return q, nil
}

func (p *exprParser) parseOr() (*Expr, error) {
	lhs, err := p.parseAnd()
	if err != nil {
		return nil, err
	}
	for p.isOp("||") {
		p.next()
		rhs, err := p.parseAnd()
		if err != nil {
			return nil, err
		}
		lhs = &Expr{Op: "binary", Name: "||", Args: []*Expr{lhs, rhs}}
	}
	return lhs, nil
}

func (p *exprParser) parseAnd() (*Expr, error) {
	lhs, err := p.parseCmp()
	if err != nil {
		return nil, err
	}
	for p.isOp("&&") {
		p.next()
		rhs, err := p.parseCmp()
		if err != nil {
			return nil, err
		}
		lhs = &Expr{Op: "binary", Name: "&&", Args: []*Expr{lhs, rhs}}
	}
	return lhs, nil
}

func (p *exprParser) parseCmp() (*Expr, error) {
	lhs, err := p.parseAdd()
	if err != nil {
		return nil, err
	}
	for _, op := range []string{"==", "!=", "<=", ">=", "<", ">"} {
		if p.isOp(op) {
			p.next()
			rhs, err := p.parseAdd()
			if err != nil {
				return nil, err
			}
			return &Expr{Op: "binary", Name: op, Args: []*Expr{lhs, rhs}}, nil
		}
	}
	return lhs, nil
}

func (p *exprParser) parseAdd() (*Expr, error) {
	lhs, err := p.parseMul()
	if err != nil {
		return nil, err
	}
	for p.isOp("+") || p.isOp("-") {
		op := p.next().text
		rhs, err := p.parseMul()
		if err != nil {
			return nil, err
		}
		lhs = &Expr{Op: "binary", Name: op, Args: []*Expr{lhs, rhs}}
	}
	return lhs, nil
}

func (p *exprParser) parseMul() (*Expr, error) {
	lhs, err := p.parseUnary()
	if err != nil {
		return nil, err
	}
	for p.isOp("*") {
		p.next()
		rhs, err := p.parseUnary()
		if err != nil {
			return nil, err
		}
		lhs = &Expr{Op: "binary", Name: "*", Args: []*Expr{lhs, rhs}}
	}
	return lhs, nil
}

func (p *exprParser) parseUnary() (*Expr, error) {
	if p.isOp("!") {
		p.next()
		a, err := p.parseUnary()
		if err != nil {
			return nil, err
		}
		return &Expr{Op: "unary", Name: "!", Args: []*Expr{a}}, nil
	}
	if p.isOp("-") {
		p.next()
		a, err := p.parseUnary()
		if err != nil {
			return nil, err
		}
		return &Expr{Op: "unary", Name: "-", Args: []*Expr{a}}, nil
	}
	return p.parsePostfix()
}

func (p *exprParser) parsePostfix() (*Expr, error) {
	e, err := p.parsePrimary()
	if err != nil {
		return nil, err
	}
	for {
		switch {
		case p.isOp("."):
			p.next()
			t := p.next()
			if t.kind != "ident" {
				return nil, fmt.Errorf("expected field name at %d", t.pos)
			}
			e = &Expr{Op: "sel", Name: t.text, Args: []*Expr{e}}
		case p.isOp("["):
			p.next()
			idx, err := p.parseImplies()
			if err != nil {
				return nil, err
			}
			if err := p.expectOp("]"); err != nil {
				return nil, err
			}
			e = &Expr{Op: "index", Args: []*Expr{e, idx}}
		default:
			return e, nil
		}
	}
}

func (p *exprParser) parsePrimary() (*Expr, error) {
	t := p.next()
	switch t.kind {
	case "int":
		n, _ := strconv.ParseInt(t.text, 10, 64)
		return &Expr{Op: "int", Int: n}, nil
	case "str":
		return &Expr{Op: "str", Str: t.text}, nil
	case "ident":
		switch t.text {
		case "true", "false":
			return &Expr{Op: "bool", Name: t.text}, nil
		case "nil":
			return &Expr{Op: "nil"}, nil
		case "forall", "exists":
			p.pos--
			return p.parseQuant()
		}
		if p.isOp("(") {
			p.next()
			var args []*Expr
			for !p.isOp(")") {
				a, err := p.parseImplies()
				if err != nil {
					return nil, err
				}
				args = append(args, a)
				if p.isOp(",") {
					p.next()
				} else if !p.isOp(")") {
					return nil, fmt.Errorf("expected , or ) at %d", p.peek().pos)
				}
			}
			p.next()
			if t.text == "old" {
				if len(args) != 1 {
					return nil, fmt.Errorf("old takes one argument")
				}
				return &Expr{Op: "old", Args: args}, nil
			}
			return &Expr{Op: "call", Name: t.text, Args: args}, nil
		}
		return &Expr{Op: "ident", Name: t.text}, nil
	case "op":
		if t.text == "(" {
			e, err := p.parseImplies()
			if err != nil {
				return nil, err
			}
			if err := p.expectOp(")"); err != nil {
				return nil, err
			}
			return e, nil
		}
	}
	return nil, fmt.Errorf("unexpected %q at %d", t.text, t.pos)
}
