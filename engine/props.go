package main

import (
	"encoding/json"
	"flag"
	"fmt"
	"os"
	"os/exec"
	"path/filepath"
	"sort"
	"strings"
	"time"
)

// PropSpec says which functions (and which of their obligations) decide a property.
type PropSpec struct {
	ID        string
	Title     string
	Funcs     []string // functions whose bodies are verified against their contracts
	Only      []string // optional: obligation name substrings that belong to this property (default: all)
	Exclude   []string // obligation name substrings judged by other properties, not this one
	Technique string
	Assume    []string // assumptions specific to the property (reduction rules etc.)
	Bounded   []string // bounded stand-ins (names of Go tests under /verif/bounded)
	Scenario  []string // known-finding replays (scripts)
	Census    string   // structural census obligations to include: "log-path", "writers" or "all"
}

type Finding struct {
	Kind        string `json:"kind"` // finding | fixed
	Property    string `json:"property"`
	Obligation  string `json:"obligation"`
	What        string `json:"what"`
	Shape       string `json:"shape,omitempty"`
	Replay      string `json:"replay,omitempty"`
	Commit      string `json:"commit,omitempty"`
	Description string `json:"description,omitempty"`
	AlsoProps   string `json:"also_props,omitempty"` // comma-separated: other properties the same obligation serves
}

func loadFindings(path string) []Finding {
	data, err := os.ReadFile(path)
	if err != nil {
		return nil
	}
	var out []Finding
	for _, line := range strings.Split(string(data), "\n") {
		line = strings.TrimSpace(line)
		if line == "" || strings.HasPrefix(line, "#") {
			continue
		}
		var f Finding
		if err := json.Unmarshal([]byte(line), &f); err == nil {
			out = append(out, f)
		}
	}
	return out
}

type oblEvidence struct {
	Name   string  `json:"name"`
	Kind   string  `json:"kind"`
	Status string  `json:"status"`
	Solver string  `json:"solver"`
	TimeS  float64 `json:"time_s"`
	Text   string  `json:"text,omitempty"`
}

func verifRoot() string {
	if r := os.Getenv("VERIF_ROOT"); r != "" {
		return r
	}
	return "/verif"
}

func cmdCheck(args []string) {
	fs := flag.NewFlagSet("check", flag.ExitOnError)
	repo := fs.String("repo", "/repo", "repository root")
	tier := fs.String("tier", "", "quick|thorough (default $VERIF_TIER or quick)")
	noEvidence := fs.Bool("no-evidence", false, "do not write the evidence file (selftest runs)")
	_ = fs.Parse(args)
	if fs.NArg() < 1 {
		fmt.Fprintln(os.Stderr, "usage: ergoverify check [flags] <property>")
		os.Exit(2)
	}
	id := fs.Arg(0)
	if r := os.Getenv("VERIF_REPO"); r != "" {
		*repo = r
	}
	t := *tier
	if t == "" {
		t = os.Getenv("VERIF_TIER")
	}
	if t == "" {
		t = "quick"
	}
	spec, ok := propSpecs[id]
	if !ok {
		fmt.Fprintf(os.Stderr, "ENGINE-ERROR unknown property %s\n", id)
		os.Exit(2)
	}
	code := runProperty(spec, *repo, t, !*noEvidence)
	os.Exit(code)
}

func runProperty(spec *PropSpec, repo, tier string, writeEvidence bool) int {
	start := time.Now()
	root := verifRoot()
	seed := 0
	fmt.Sscanf(os.Getenv("VERIF_SEED"), "%d", &seed)
	eng, err := loadEngine(repo, filepath.Join(repo, "internal/ergo/verif_contracts.go"))
	if err != nil {
		fmt.Printf("ENGINE-ERROR %v\n", err)
		return 2
	}
	eng.findings = loadFindings(filepath.Join(root, "known_findings.jsonl"))
	scratch := scratchDir()
	if os.Getenv("VERIF_KEEP_SCRATCH") == "" {
		defer os.RemoveAll(scratch)
	}
	timeout := 20
	all := false
	if tier == "thorough" {
		timeout = 30
		all = true
	}
	var results []*FuncResult
	var missing []string
	for _, name := range spec.Funcs {
		fn, ok := eng.funcs[name]
		if !ok {
			missing = append(missing, name)
			continue
		}
		if eng.cf.Funcs[name] == nil {
			missing = append(missing, name+" (no contract)")
			continue
		}
		results = append(results, eng.encodeFunction(fn))
	}
	filter := func(o *Obligation) bool {
		for _, s := range spec.Exclude {
			if strings.Contains(o.Name, s) {
				return false
			}
		}
		if len(spec.Only) == 0 {
			return true
		}
		for _, s := range spec.Only {
			if strings.Contains(o.Name, s) {
				return true
			}
		}
		return false
	}
	discharge(scratch, results, timeout, all, filter)

	findings := loadFindings(filepath.Join(root, "known_findings.jsonl"))
	undecided := loadNameList(filepath.Join(root, "baseline", "undecided.txt"))
	baseline := loadBaseline(filepath.Join(root, "baseline", "obligations.json"))
	_ = os.MkdirAll(filepath.Join(root, "replays"), 0755)

	var evid []oblEvidence
	var violations []string
	var known []string
	nObl, nDis := 0, 0
	byBackend := map[string]int{}
	solverTime := 0.0
	trusted := map[string]string{}
	var notes []string
	inlined := map[string]bool{}
	var samples []interface{}
	var funcsUnder []string
	vacuity := map[string]string{}
	perFuncCount := map[string]int{}
	replays := 0
	generated := map[string]bool{}
	for _, r := range results {
		for _, o := range r.Obligations {
			generated[o.Name] = true
		}
	}
	for _, r := range results {
		funcsUnder = append(funcsUnder, r.Func)
		for k, v := range r.Enc.trusted {
			trusted[k] = v
		}
		for k := range r.Enc.inlined {
			inlined[k] = true
		}
		notes = append(notes, r.Enc.notes...)
		if r.Cover != nil {
			vacuity[r.Func] = r.Cover.Status
			if r.Cover.Status == "unsat" {
				violations = append(violations, reportViolation(root, spec.ID, r.Func+"/cover", "the function's preconditions and the assumptions on its paths are contradictory (no exit is reachable): every obligation would hold vacuously", r.Cover, nil))
			}
		}
		for _, e := range r.Errors {
			violations = append(violations, reportViolation(root, spec.ID, r.Func+"/encode", "the function left the verified subset or its contract no longer binds: "+e, nil, nil))
		}
		for _, o := range r.Obligations {
			if !filter(o) {
				continue
			}
			if o.Kind == "residual" {
				continue // judged together with the obligation it belongs to
			}
			if o.Kind == "canary" {
				st := "?"
				if o.Result != nil {
					st = o.Result.Status
				}
				vacuity[o.Name] = st
				if st == "unsat" {
					violations = append(violations, reportViolation(root, spec.ID, o.Name, "vacuity canary: this clause must be refutable (the path it describes must be reachable), but it was proved: "+o.Text, o.Result, nil))
				}
				continue
			}
			if undecided[o.Name] {
				evid = append(evid, oblEvidence{Name: o.Name, Kind: o.Kind, Status: "undecided-not-counted", Text: o.Text})
				continue
			}
			perFuncCount[r.Func]++
			nObl++
			ev := oblEvidence{Name: o.Name, Kind: o.Kind, Text: o.Text}
			if o.Result != nil {
				ev.Status, ev.Solver, ev.TimeS = o.Result.Status, o.Result.Solver, o.Result.TimeS
				solverTime += o.Result.TimeS
			}
			evid = append(evid, ev)
			if o.Result != nil && o.Result.Status == "unsat" {
				nDis++
				byBackend[o.Result.Solver]++
				if len(samples) < 3 && (o.Kind == "ensures" || o.Kind == "invariant-preserved") {
					samples = append(samples, map[string]string{"obligation": o.Name, "clause": o.Text, "verdict": "unsat (negation of the VC) by " + o.Result.Solver})
				}
				continue
			}
			// not discharged
			if f := matchFinding(findings, spec.ID, o.Name); f != nil {
				nObl-- // known-finding obligations are listed separately, not counted as attempted proof obligations
				if f.Property != spec.ID && !strings.Contains(","+f.AlsoProps+",", ","+spec.ID+",") {
					// the clause (and its recorded finding) belongs to another property; it is judged there
					continue
				}
				if f.Shape != "" {
					var res *Obligation
					for _, o2 := range r.Obligations {
						if o2.Name == o.Name+"~residual" {
							res = o2
						}
					}
					if res == nil || res.Result == nil || res.Result.Status != "unsat" {
						var rr *SolverResult
						if res != nil {
							rr = res.Result
						}
						violations = append(violations, reportViolation(root, spec.ID, o.Name+"~residual", "the clause fails outside the shape recorded for the known finding ("+f.Shape+"): a different violation of the same property: "+o.Text, rr, r))
						continue
					}
				}
				known = append(known, fmt.Sprintf("KNOWN-FINDING: property=%s %s", spec.ID, f.What))
				continue
			}
			// try to confirm with a concrete run of the real function (bounded number of replays per run)
			if o.Result != nil && replays < 4 && os.Getenv("VERIF_NO_REPLAY") == "" {
				replays++
				o.Result.Replay = eng.replayObligation(scratch, r, o)
			}
			violations = append(violations, reportViolation(root, spec.ID, o.Name, o.Text, o.Result, r))
		}
	}
	// structural census (decided on the call graph, no solver)
	if spec.Census != "" {
		for _, cr := range eng.census() {
			if spec.Census == "log-path" && !strings.HasPrefix(cr.Name, "census/log-path") {
				continue
			}
			if spec.Census == "writers" && !strings.HasPrefix(cr.Name, "census/writer") {
				continue
			}
			nObl++
			ev := oblEvidence{Name: cr.Name, Kind: "census", Text: cr.Detail, Solver: "structural"}
			if cr.OK {
				nDis++
				ev.Status = "holds"
			} else {
				ev.Status = "fails"
				violations = append(violations, reportViolation(root, spec.ID, cr.Name, cr.Detail, nil, nil))
			}
			evid = append(evid, ev)
		}
	}
	// bounded stand-ins: run, reported separately, never counted as discharged
	var boundedRuns []map[string]interface{}
	for _, b := range spec.Bounded {
		br := runBounded(repo, scratch, b, tier)
		boundedRuns = append(boundedRuns, br)
		if br["status"] != "pass" {
			file := filepath.Join(root, "replays", spec.ID+"-bounded-"+sanitize(b)+".json")
			data, _ := json.MarshalIndent(br, "", " ")
			_ = os.WriteFile(file, data, 0644)
			violations = append(violations, fmt.Sprintf("VIOLATION property=%s replay=%s obligation=bounded:%s (failing inputs are listed in the replay file)", spec.ID, file, b))
		}
	}
	for _, m := range missing {
		violations = append(violations, reportViolation(root, spec.ID, m+"/missing", "function under contract not found in the package (renamed or removed): its obligations cannot be generated", nil, nil))
	}
	// vacuity: obligation counts must not drop below the baseline
	for fn, want := range baseline {
		if !contains(spec.Funcs, fn) {
			continue
		}
		for _, req := range want.Required {
			if !generated[req] {
				violations = append(violations, reportViolation(root, spec.ID, req+"/unbound", "this contract clause generated an obligation on the pinned tree but no longer does (function, loop or named local gone): the property is undecided for it", nil, nil))
			}
		}
	}
	// fixed findings must not come back: nothing to do (their obligations are ordinary obligations now)
	wall := time.Since(start).Seconds()
	sort.Strings(funcsUnder)
	var trustedList []string
	for _, k := range sortedStringKeys(trusted) {
		trustedList = append(trustedList, k+": "+trusted[k])
	}
	trustedList = append(trustedList, "go/ssa lowering of the package (golang.org/x/tools v0.29.0) agrees with the Go compiler",
		"the SMT solvers' unsat answers (z3 4.8.12, z3 5.1.0, cvc5 1.0)", "this VC generator (/verif/engine)")
	assumptions := append([]string{
		"int is mathematical (SMT Int); collections have fewer than 2^63 elements",
		"strings are abstract values with an order-embedding into Int; byte-level string algorithms are not interpreted",
		"slices, maps and pointers follow the memory model of DESIGN.md §4 (Burstall heaps, append in place or reallocating)",
		"range over a map: no insertion into the ranged map during iteration",
	}, spec.Assume...)
	assumptions = append(assumptions, dedupe(notes)...)
	if len(samples) == 0 {
		samples = append(samples, map[string]string{"note": "no ensures/invariant obligation discharged in this run"})
	}
	evidence := map[string]interface{}{
		"property_id": spec.ID,
		"tier":        tier,
		"seed":        seed,
		"level":       "proof",
		"wall_s":      wall,
		"violations":  len(violations),
		"assumptions": assumptions,
		"coverage": map[string]interface{}{
			"obligations":              nObl,
			"discharged":               nDis,
			"checker_cmd":              fmt.Sprintf("/verif/bin/ergoverify check --tier %s %s  (per obligation, staged: weakened variants of the query (fewer assumptions, lambda frames) on z3 5.1 without array extensionality - unsat answers only; then the full query on z3 5.1 | z3 4.8.12 | cvc5 1.0; first definite answer; thorough: every solver is waited for and all must agree)", tier, spec.ID),
			"trusted_base":             trustedList,
			"functions_under_contract": funcsUnder,
			"inlined_leaf_helpers":     sortedBoolKeys(inlined),
			"per_obligation":           evid,
			"solver_time_s":            solverTime,
			"discharged_by_backend":    byBackend,
			"known_findings_matched":   known,
			"vacuity_cover":            vacuity,
			"samples":                  samples,
			"technique":                spec.Technique,
			"explanation":              "every obligation is a verification condition generated from the go/ssa form of the function in /repo's working tree; discharged means the negated VC is unsat",
			"bounded":                  boundedRuns,
			"per_function_obligations": perFuncCount,
		},
	}
	if writeEvidence {
		_ = os.MkdirAll(filepath.Join(root, "evidence"), 0755)
		data, _ := json.MarshalIndent(evidence, "", " ")
		_ = os.WriteFile(filepath.Join(root, "evidence", spec.ID+".json"), data, 0644)
	}
	for _, k := range dedupe(known) {
		fmt.Println(k)
	}
	for _, v := range violations {
		fmt.Println(v)
	}
	fmt.Printf("%s: %d/%d obligations discharged over %d functions, %d violations, %d known findings, %.1fs\n", spec.ID, nDis, nObl, len(results), len(violations), len(dedupe(known)), wall)
	if len(violations) > 0 {
		return 1
	}
	return 0
}

func contains(xs []string, x string) bool {
	for _, y := range xs {
		if y == x {
			return true
		}
	}
	return false
}

func dedupe(xs []string) []string {
	seen := map[string]bool{}
	var out []string
	for _, x := range xs {
		if !seen[x] {
			seen[x] = true
			out = append(out, x)
		}
	}
	return out
}

func sortedStringKeys(m map[string]string) []string {
	var out []string
	for k := range m {
		out = append(out, k)
	}
	sort.Strings(out)
	return out
}

func sortedBoolKeys(m map[string]bool) []string {
	out := []string{}
	for k := range m {
		out = append(out, k)
	}
	sort.Strings(out)
	return out
}

func matchFinding(fs []Finding, prop, obligation string) *Finding {
	for i := range fs {
		f := &fs[i]
		if f.Kind == "finding" && f.Obligation == obligation {
			return f
		}
	}
	return nil
}

func loadNameList(path string) map[string]bool {
	out := map[string]bool{}
	data, err := os.ReadFile(path)
	if err != nil {
		return out
	}
	for _, l := range strings.Split(string(data), "\n") {
		l = strings.TrimSpace(l)
		if l != "" && !strings.HasPrefix(l, "#") {
			out[l] = true
		}
	}
	return out
}

type baselineEntry struct {
	Required []string `json:"required"` // ensures and loop-entry obligations that must be generated (contract still binds)
}

func loadBaseline(path string) map[string]baselineEntry {
	out := map[string]baselineEntry{}
	data, err := os.ReadFile(path)
	if err != nil {
		return out
	}
	_ = json.Unmarshal(data, &out)
	return out
}

// reportViolation writes the replay file and returns the VIOLATION line.
func reportViolation(root, prop, obligation, text string, res *SolverResult, fr *FuncResult) string {
	file := filepath.Join(root, "replays", prop+"-"+sanitize(obligation)+".json")
	rec := map[string]interface{}{
		"property":   prop,
		"obligation": obligation,
		"clause":     text,
	}
	suffix := " no-failing-input-found"
	if res != nil {
		rec["solver"] = res.Solver
		rec["status"] = res.Status
		out := res.Output
		if len(out) > 4000 {
			out = out[:4000]
		}
		rec["solver_output"] = out
		if len(res.Model) > 0 {
			rec["model"] = res.Model
		}
	}
	if res != nil && res.Replay != nil {
		rec["replay"] = res.Replay
		if res.Replay.Confirmed {
			suffix = ""
		}
	}
	data, _ := json.MarshalIndent(rec, "", " ")
	_ = os.WriteFile(file, data, 0644)
	return fmt.Sprintf("VIOLATION property=%s replay=%s obligation=%s%s", prop, file, obligation, suffix)
}

// cmdBaseline records, per function under contract, how many obligations the pinned tree generates.
// It refuses to record anything unless every property check passes.
func cmdBaseline(args []string) {
	root := verifRoot()
	out := map[string]baselineEntry{}
	eng, err := loadEngine("/repo", "/repo/internal/ergo/verif_contracts.go")
	if err != nil {
		fmt.Println("ENGINE-ERROR", err)
		os.Exit(2)
	}
	seen := map[string]bool{}
	for _, id := range sortedSpecIDs() {
		for _, name := range propSpecs[id].Funcs {
			if seen[name] {
				continue
			}
			seen[name] = true
			fn, ok := eng.funcs[name]
			if !ok {
				fmt.Println("missing function", name)
				os.Exit(1)
			}
			r := eng.encodeFunction(fn)
			var req []string
			for _, o := range r.Obligations {
				if o.Kind == "ensures" || o.Kind == "invariant-entry" || o.Kind == "step" {
					req = append(req, o.Name)
				}
			}
			out[name] = baselineEntry{Required: req}
		}
	}
	locals := map[string][]localDecl{}
	for name := range eng.cf.Funcs {
		if fn, ok := eng.funcs[name]; ok {
			locals[name] = functionLocals(fn)
		}
	}
	_ = os.MkdirAll(filepath.Join(root, "baseline"), 0755)
	ldata, _ := json.MarshalIndent(locals, "", " ")
	_ = os.WriteFile(filepath.Join(root, "baseline", "locals.json"), ldata, 0644)
	data, _ := json.MarshalIndent(out, "", " ")
	_ = os.WriteFile(filepath.Join(root, "baseline", "obligations.json"), data, 0644)
	fmt.Printf("baseline: %d functions\n", len(out))
}

func sortedSpecIDs() []string {
	var ids []string
	for id := range propSpecs {
		ids = append(ids, id)
	}
	sort.Strings(ids)
	return ids
}

// runBounded runs one bounded stand-in (an in-package Go test under /verif/bounded, injected with -overlay).
func runBounded(repo, scratch, name, tier string) map[string]interface{} {
	root := verifRoot()
	res := map[string]interface{}{"name": name, "label": "bounded (exhaustive within the stated bound; never counted as proved)"}
	files, _ := filepath.Glob(filepath.Join(root, "bounded", "*_test.go"))
	repl := map[string]string{}
	for i, f := range files {
		repl[filepath.Join(repo, "internal/ergo", fmt.Sprintf("zz_verif_bounded%d_test.go", i))] = f
	}
	ov, _ := json.Marshal(map[string]interface{}{"Replace": repl})
	ovFile := filepath.Join(scratch, "bounded_overlay.json")
	_ = os.WriteFile(ovFile, ov, 0644)
	cmdline := fmt.Sprintf("cd %s && VERIF_TIER=%s go test -v -overlay %s -vet=off -count=1 -timeout 600s -run '^TestVerifBounded_%s$' ./internal/ergo", repo, tier, ovFile, name)
	cmd := exec.Command("bash", "-c", cmdline)
	cmd.Env = append(os.Environ(), "GOFLAGS=-mod=mod", "GOPROXY=off")
	out, _ := cmd.CombinedOutput()
	text := string(out)
	res["command"] = cmdline
	res["status"] = "error"
	for _, line := range strings.Split(text, "\n") {
		if strings.HasPrefix(line, "VERIF-BOUNDED ") {
			res["summary"] = line
			var n, cases, failures string
			for _, f := range strings.Fields(line) {
				if strings.HasPrefix(f, "name=") {
					n = f[5:]
				}
				if strings.HasPrefix(f, "cases=") {
					cases = f[6:]
				}
				if strings.HasPrefix(f, "failures=") {
					failures = f[9:]
				}
				if strings.HasPrefix(f, "bound=") {
					res["bound"] = f[6:]
				}
			}
			_ = n
			res["cases"] = cases
			if failures == "0" {
				res["status"] = "pass"
			} else {
				res["status"] = "fail"
			}
		}
	}
	if res["status"] != "pass" {
		if len(text) > 6000 {
			text = text[:6000]
		}
		res["output"] = text
	}
	return res
}
