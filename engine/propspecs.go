package main

// Which functions under contract decide which property. The contracts themselves are in
// /repo/internal/ergo/verif_contracts.go; DESIGN.md §8 explains each reduction.
var propSpecs = map[string]*PropSpec{
	"C06": {
		ID: "C06", Title: "State machine and claim invariants hold on every path",
		Funcs:     []string{"validateTransition", "validateClaimInvariant", "newEvent", "buildSetEvents", "applyTombstone", "sortedKeys", "replayEvents"},
		Technique: "contract-based deductive verification: postconditions of the transition table, the claim rule and the set-event builder over the (state, claimant) projection of replay",
		Assume:    []string{"the (state, claimant) effect of an event list is the fold of the replay step evState/evClaim; replayEvents/loop0/step[state-claim] proves, for every event type and every back edge of the real loop, that one iteration applies exactly this step to every live item (frame included)",
			"induction over command sequences (every writer preserves the invariant, replay is a left fold) is the standard soundness argument of invariants; the writers other than the set path are not yet under contract"},
	},
	"C08": {
		ID: "C08", Title: "ready/blocked mean what the manual says; claim takes the oldest ready task",
		Funcs:     []string{"isEpicComplete", "areEpicDepsComplete", "isReady", "isBlocked", "listTasks$1", "listTasks", "filterTasksByKind", "readyTasks$1", "readyTasks"},
		Technique: "contract-based deductive verification: pure functions proved equivalent to spec predicates transcribed from the property statement; loop invariants over map ranges; sort contracts",
	},
	"C09": {
		ID: "C09", Title: "prune removes exactly finished work; pruned ids are gone for good",
		Funcs:     []string{"selectPruneTargets", "applyTombstone", "sortedKeys", "replayEvents"},
		Technique: "contract-based deductive verification: exact prune policy as a postcondition with five loop invariants; tombstone exclusion as a loop invariant of the real replay loop for every event list",
		Assume:    []string{"tombExcluded is proved preserved by every case of the replay loop for arbitrary (also hand-merged) event lists; command guards against pruned ids and id reuse are not yet under contract"},
	},
}
