package main

// Which functions under contract decide which property. The contracts themselves are in
// /repo/internal/ergo/verif_contracts.go; DESIGN.md §8 explains each reduction.
var propSpecs = map[string]*PropSpec{
	"C06": {
		ID: "C06", Title: "State machine and claim invariants hold on every path",
		Funcs:     []string{"validateTransition", "validateClaimInvariant", "newEvent", "buildSetEvents"},
		Technique: "contract-based deductive verification: postconditions of the transition table, the claim rule and the set-event builder over the (state, claimant) projection of replay",
		Assume:    []string{"the (state, claimant) effect of an event list is the fold of the replay step; that the real replay loop implements this step is the obligation group replayEvents/step[...] (C06 lists it when it is under contract)"},
	},
	"C08": {
		ID: "C08", Title: "ready/blocked mean what the manual says; claim takes the oldest ready task",
		Funcs:     []string{"isEpicComplete", "areEpicDepsComplete", "isReady", "isBlocked", "listTasks$1", "listTasks", "filterTasksByKind", "readyTasks$1", "readyTasks"},
		Technique: "contract-based deductive verification: pure functions proved equivalent to spec predicates transcribed from the property statement; loop invariants over map ranges; sort contracts",
	},
	"C09": {
		ID: "C09", Title: "prune removes exactly finished work; pruned ids are gone for good",
		Funcs:     []string{"selectPruneTargets"},
		Technique: "contract-based deductive verification: exact prune policy as a postcondition with five loop invariants",
	},
}
