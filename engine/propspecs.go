package main

// Which functions under contract decide which property. The contracts themselves are in
// /repo/internal/ergo/verif_contracts.go; DESIGN.md §8 explains each reduction.
var replayFuncs = []string{"applyTombstone", "sortedKeys", "replayEvents", "loadGraph"}
var readyFuncs = []string{"isEpicComplete", "areEpicDepsComplete", "isReady", "isBlocked", "listTasks$1", "listTasks", "filterTasksByKind", "readyTasks$1", "readyTasks"}

func cat(lists ...[]string) []string {
	var out []string
	seen := map[string]bool{}
	for _, l := range lists {
		for _, x := range l {
			if !seen[x] {
				seen[x] = true
				out = append(out, x)
			}
		}
	}
	return out
}

var lockAssume = []string{
	"schedules are not enumerated: by the lock-invariant rule, if every critical section is sequentially correct and every access to the log happens in a section holding the exclusive lock in the epoch of its read (both proved here as obligations on the real code), every interleaving is equivalent to a serial order of sections; that the kernel grants LOCK_EX to at most one open file description at a time and that LOCK_NB fails fast are trusted (flock(2))",
	"contracts of readEvents (bounded stand-in in C03/C12/C13), resolveErgoDir (bounded stand-in in C18) and writeJSON are assumed; appendEvents and replaceEventsAtomically are verified on their bodies for the write protocol (C03/C04) while their clauses [ok]/[fail] tying the ghost log version to a completed write stay assumed; getEventsPath is verified (C18); I/O faults of stdout are excluded",
}

var lockFuncs = []string{"ensureFileExists", "withLock"}
var storageFuncs = []string{"writeAll", "appendEvents", "writeEventsFile", "syncDir", "replaceEventsAtomically", "appendEventsAtomically"}
var crashAssume = []string{
	"crash model (trusted): a process can die only between two system calls or inside one write(2), which then leaves a prefix of its bytes; the kernel releases flock when the holder dies; rename(2) is atomic; fsync makes a file durable. Under this model the obligations are about how many calls there are and in which order, not about exploring kill points",
	"the extern contracts of os.OpenFile, (*os.File).Write/Sync/Close, bufio.Writer.Write/Flush and os.Rename are ASSUMED (ghost effects on logWrites, tailTorn, tmpStage); the byte content written is not related to the events (clauses [ok]/[fail] of appendEvents and replaceEventsAtomically about the ghost log version stay assumed)",
	"readEvents (bufio.Scanner with a stateful split function) is outside the verified subset: BOUNDED stand-in on the real function (every line sequence of length <= 4 (thorough 5) over 7 line kinds x 4 tails; every byte prefix of 40 valid logs), labelled bounded, never counted as proved",
}
var sectionFuncs = []string{"RunClaimOldestReady$1", "applySetUpdates$1", "writeLinkEvent$1", "createTaskWithDir$1", "writeResultEvent$1", "runPrune$1", "RunCompact$1", "RunPlan$1"}
var outerFuncs = []string{"writeLinkEvent", "createTaskWithDir", "createTask", "writeResultEvent", "applySetUpdates", "runPrune", "RunPrunePlan", "RunPruneApply", "appendEventsAtomically"}
var commandFuncs = []string{"RunClaimOldestReady", "RunClaim", "RunSet", "RunNewTask", "RunNewEpic", "RunSequence", "RunPrune", "RunCompact", "RunShow", "RunInit", "RunPlan"}
var helperFuncs = []string{"newEvent", "newShortID", "buildSetEvents", "validateTransition", "validateClaimInvariant", "buildPruneItems", "buildTombstoneEvents", "buildPrunePlan", "selectPruneTargets",
	"buildSequenceEdges", "isReachable", "hasCycle", "(*ValidationError).GoError", "(*TaskInput).validate", "(*TaskInput).ToKeyValueMap", "buildUpdatedFields", "claimedAtForTask", "buildFlagUpdates", "(*PlanInput).Validate"}

// clause labels that belong to the transaction/atomicity properties (C02, C10) and to the output property (C16)
var txLabels = []string{"[fail-unchanged]", "[one-commit]", "[committed]", "[version-tracks-commits]", "[dry-run-pure]", "[read-pure]"}
var jsonLabels = []string{"[json-", "[quiet]", "[no-json]", "[reply"}

var propSpecs = map[string]*PropSpec{
	"C01": {
		ID: "C01", Exclude: jsonLabels, Title: "A ready task is handed to at most one claimant",
		Funcs:     cat(lockFuncs, []string{"RunClaimOldestReady$1", "RunClaimOldestReady", "newEvent"}, readyFuncs, replayFuncs),
		Technique: "contract-based deductive verification: ghost lock state (withLock calls its callback at most once, only with the lock held, releases it, never blocks), functional contract of the claim section (oldest ready task, two events, effect doing+claimant, append under LOCK_EX in the epoch of the read)",
		Assume:    lockAssume,
	},
	"C02": {
		ID: "C02", Exclude: jsonLabels, Title: "Concurrent commands are serializable; acknowledged writes are never lost",
		Funcs:     cat(lockFuncs, sectionFuncs, outerFuncs, commandFuncs, helperFuncs, readyFuncs, replayFuncs),
		Technique: "contract-based deductive verification of the lock protocol as ghost state: every write primitive requires LOCK_EX held and the log read in the same lock epoch (obligations at every call site), withLock never blocks, every command is at most one commit (recorded findings where it is not)",
		Census:    "writers",
		Assume:    append([]string{"init's file creation outside the lock is tracked by the ghost counter fsWrites only"}, lockAssume...),
	},
	"C03": {
		ID: "C03", Exclude: jsonLabels, Title: "A killed process never bricks the store or loses acknowledged work",
		Funcs:     cat(storageFuncs, lockFuncs, sectionFuncs),
		Bounded:   []string{"readEvents"},
		Technique: "contract-based deductive verification with the log file as ghost state (tailTorn, logWrites, tmpStage): on their real bodies, appendEvents is proved to issue at most one write(2), of newline-terminated lines only (a complete call leaves the tail as it found it); writeEventsFile is proved to flush and fsync the temp file before it returns success, and replaceEventsAtomically to rename only a durable temp file (obligation at the rename) and to leave a clean tail; every write primitive is called with LOCK_EX held in the epoch of the read (call-site obligations in every section). The obligation that an append never glues onto a torn tail FAILS on the real code and is the recorded finding (replayed on the real binary); reader tolerance is a bounded stand-in",
		Assume:    crashAssume,
	},
	"C04": {
		ID: "C04", Exclude: jsonLabels, Title: "Multi-event commands are all-or-nothing across process death",
		Funcs:     cat(storageFuncs, lockFuncs, sectionFuncs, outerFuncs, commandFuncs),
		Technique: "contract-based deductive verification: every lock section is proved to call a write primitive at most once with all its events (one commit), appendEvents is proved to turn that call into at most ONE write(2) (defect repaired: one write per event before), and plan/compact go through the rename of a durable temp file; with one system call per command there is no point between two of its calls at which a kill can split it. Commands made of two sections (set with a result, new task with follow-up fields, multi-edge sequence) are the recorded findings with residual queries",
		Assume:    append([]string{"a single write(2) of a few hundred bytes to a regular file is not split by SIGKILL (signals are taken at system-call boundaries); power loss and short writes belong to C03's torn-tail model"}, crashAssume...),
	},
	"C13": {
		ID: "C13", Exclude: cat(jsonLabels, []string{"[fail-unchanged]", "[one-commit]", "[committed]"}), Title: "Readers never fail or see garbage while writers are active",
		Funcs:     cat([]string{"RunList", "RunShow", "RunWhere"}, storageFuncs, replayFuncs),
		Bounded:   []string{"readEvents"},
		Technique: "contract-based deductive verification of the two sides of a rely/guarantee argument: writers guarantee (proved on the real bodies) that the log only ever grows by one write of whole newline-terminated lines, or is replaced by the rename of a complete, durable file; readers (list, show, where) are proved to take no lock, never to block and to write nothing; what a lock-free reader makes of a log that is being extended - any byte prefix - is the BOUNDED stand-in on the real readEvents (every byte prefix of 40 logs reads without error as the events of its complete lines). The probe-before-scan race in readEvents was a genuine defect (repaired, forced schedule replayed with strace)",
		Assume:    append([]string{"interleavings are not enumerated: by the writers' guarantee every state a reader can observe is a byte prefix of some log the store passed through (append path) or a complete old/new file (rename path); that a reader observing the first lines of a multi-line write sees a state between two events of one command is inherent to lock-free reads and is NOT excluded"}, crashAssume...),
	},
	"C05": {
		ID: "C05", Exclude: jsonLabels, Title: "compact changes nothing a reader can see",
		Funcs:     cat([]string{"compactEvents", "sortedTasks$1", "sortedTasks", "sortedMapKeys", "sortedKeys", "RunCompact$1", "RunCompact", "newEvent"}, storageFuncs, lockFuncs, replayFuncs),
		Bounded:   []string{"compactRoundTrip"},
		Technique: "contract-based deductive verification of what compactEvents emits, on its real body (four loops): per live item, in id order, a create event carrying id, uuid, kind and the CREATED epic/state/title/body, followed by a group of at most five events whose fold under the replay step semantics (the very functions evState/evClaim/evTitle/evBody/evEpic that one iteration of the real replay loop is proved to implement) yields the item's current state, claimant (given the claim invariant), title, body and epic; then its results oldest first, field by field; earlier groups stay untouched; one depends-link event per dependency pair; the section holds the exclusive lock and replaces the log by one durable rename. The induction that replaying those groups in order restores every item is not carried out by the generator: it is exercised by a BOUNDED end-to-end round trip",
		Assume:    []string{"composition (induction over the emitted groups; groups of different ids do not interfere because every step clause leaves other ids untouched) is argued, not machine-checked; it is exercised by the BOUNDED stand-in compactRoundTrip: 400 (thorough 4000) seeded histories of 10..34 real commands (create, set state/claim/title/body/epic, result, link/unlink, prune) - snapshot of every observable field, ready/blocked flags and claim order before compaction, after it, and after a second compaction", "timestamps (created/updated/claimed-at) are covered by the bounded part only; the claimant clause assumes the claim invariant of C06 (a done/todo/canceled item is unclaimed)", "tombstones are dropped by compaction as documented (docs/spec.md, Post-compact behavior): `pruned ids stay absent` is proved in the sense that no event mentions an id outside graph.Tasks"},
	},
	"C06": {
		ID: "C06", Exclude: cat(txLabels, jsonLabels), Title: "State machine and claim invariants hold on every path",
		Funcs:     cat([]string{"validateTransition", "validateClaimInvariant", "newEvent", "buildSetEvents", "applySetUpdates$1", "RunClaimOldestReady$1", "createTaskWithDir$1", "applySetUpdates", "writeResultEvent$1", "writeResultEvent"}, readyFuncs, replayFuncs),
		Technique: "contract-based deductive verification: postconditions of the transition table, the claim rule and the set-event builder over the (state, claimant) projection of replay; composed with the set section (the appended events are the built events for the live item) and the claim section; a rejected set request has committed nothing except possibly its lone result event (applySetUpdates/ensures[reject-touches-result-only], via the ghost record of the last appended events)",
		Assume: []string{"the (state, claimant) effect of an event list is the fold of the replay step evState/evClaim; replayEvents/loop0/step[state-claim] proves, for every event type and every back edge of the real loop, that one iteration applies exactly this step to every live item (frame included)",
			"induction over command sequences (every writer preserves the invariant, replay is a left fold) is the standard soundness argument of invariants; writers covered: set, claim <id> (= set), claim, create (state todo, unclaimed); plan is not yet under contract; link/result/tombstone events do not touch state or claimant by the step clause",
			"contracts of readEvents/appendEvents are assumed (storage layer not yet under contract)"},
	},
	"C07": {
		ID: "C07", Exclude: cat(txLabels, jsonLabels), Title: "The dependency graph stays acyclic, same-kind and between live items",
		Funcs:     cat(lockFuncs, []string{"isReachable", "hasCycle", "writeLinkEvent$1", "writeLinkEvent", "buildSequenceEdges", "RunSequence", "newEvent"}, replayFuncs),
		Technique: "contract-based deductive verification: completeness of the recursive DFS (a false answer leaves a dependency-closed visited set containing `to` and not `from`), guards of the link section, and an explicit re-ranking lemma showing that a ranking of the read graph extends to the graph plus the appended edge; tombstone edge removal and its frame",
		Assume:    append([]string{"acyclicity is stated as existence of a strictly decreasing rank (uninterpreted rankOf: the statement holds for every ranking); concurrent inserts are serialised by the lock protocol (C02 obligations on the same section)", "the deps/rdeps mirror clause and plan's edges are not yet under contract"}, lockAssume...),
	},
	"C08": {
		ID: "C08", Exclude: cat(txLabels, jsonLabels), Title: "ready/blocked mean what the manual says; claim takes the oldest ready task",
		Funcs:     cat(readyFuncs, []string{"RunClaimOldestReady$1", "newEvent"}, replayFuncs),
		Technique: "contract-based deductive verification: pure functions proved equivalent to spec predicates transcribed from the property statement; loop invariants over map ranges; sort contracts; the claim section takes ready[0] of the proved ordering and reports no-ready exactly when the ready set is empty",
	},
	"C09": {
		ID: "C09", Exclude: jsonLabels, Title: "prune removes exactly finished work; pruned ids are gone for good",
		Funcs:     cat([]string{"selectPruneTargets", "buildPrunePlan", "buildPruneItems", "buildTombstoneEvents", "runPrune$1", "runPrune", "RunPrunePlan", "RunPruneApply", "newShortID", "createTaskWithDir$1", "applySetUpdates$1", "writeLinkEvent$1", "writeResultEvent$1", "newEvent", "RunCompact$1", "RunCompact"}, lockFuncs, replayFuncs),
		Technique: "contract-based deductive verification: exact prune policy as a postcondition with five loop invariants; dry run writes nothing; applied tombstones are exactly the planned ids; tombstone exclusion as a loop invariant of the real replay loop for every event list; command guards and id freshness as postconditions of the sections",
		Assume:    []string{"tombExcluded is proved preserved by every case of the replay loop for arbitrary (also hand-merged) event lists", "show's guard is in RunShow (under contract for C12/C16); plan's id generation shares newShortID"},
	},
	"C10": {
		ID: "C10", Exclude: jsonLabels, Title: "A command that fails changes nothing",
		Funcs:     cat(lockFuncs, sectionFuncs, outerFuncs, commandFuncs, helperFuncs, readyFuncs, replayFuncs),
		Technique: "contract-based deductive verification: ghost log version; every section and command has the postcondition `error ==> log version unchanged` (recorded findings where the real code commits before it validates)",
		Assume:    append([]string{"I/O faults of the write primitives and of stdout are excluded (assumed contracts); plan is not yet under contract"}, lockAssume...),
	},
	"C12": {
		ID: "C12", Title: "State is a total function of the log; reads are pure; history only grows", Exclude: []string{"[fail-unchanged]", "[one-commit]", "[committed]"},
		Funcs: cat([]string{"RunList", "RunShow", "RunWhere", "RunPrune", "RunPrunePlan", "runPrune", "runPrune$1", "sortByCreatedAt$1", "sortByCreatedAt", "buildTaskListItems",
			"computeStatsForTasks", "collectNonEpicTasks", "filterActiveTasks", "filterReadyTasks", "stateIcon", "selectPruneTargets", "buildPrunePlan", "buildPruneItems", "buildTombstoneEvents", "newEvent", "claimedAtForTask", "isReachable", "hasCycle"}, lockFuncs, readyFuncs, replayFuncs),
		Bounded:   []string{"readEvents"},
		Technique: "contract-based deductive verification: (a) totality: every instruction of the replay loop, of tombstone application and of the read-side graph functions that can panic has a discharged safety obligation for EVERY event list; (b) determinism: every sort comparator that feeds output is proved a total order on the items it sorts (epics: defect repaired), map-derived slices are sorted; (c) read purity: list, show, where and prune without --yes are proved to call no write primitive (ghost log version and commit counter unchanged, no file creation except the lock file); (d) the recursive cycle walk terminates on every graph, cyclic ones included: a frame marks its node before it follows an edge (isReachable/loop0 invariant [start]) and only frames whose node was unmarked at entry descend (invariant [variant]), so nested frames carry pairwise distinct nodes of a finite map",
		Assume:    []string{"readEvents (line scanner, located parse errors naming file and physical line) is outside the verified subset: BOUNDED stand-in on the real function (line sequences over 7 kinds incl. blank lines before the bad line; every byte prefix of 40 logs); topoSortTasks/collectEpicChildren and the tree renderer are assumed pure; `promptly` (time bounds) is not expressible; append-only is carried by the assumed appendEvents contract (O_APPEND)"},
	},
	"C17": {
		ID: "C17", Title: "Titles and bodies come back exactly as they went in", Exclude: cat(txLabels, jsonLabels),
		Funcs:     cat([]string{"buildSetEvents", "applySetUpdates$1", "createTaskWithDir$1", "applyLegacyTitleMigration", "buildTaskShowOutput", "(*TaskInput).GetTitle", "(*TaskInput).GetBody", "buildFlagUpdates", "readBodyFromStdinOrEmpty", "RunNewTask", "RunNewEpic", "createTaskWithDir", "createTask", "withCurrentState", "newEvent", "validateTransition", "validateClaimInvariant", "writeAll", "appendEvents", "writeEventsFile", "compactEvents", "sortedTasks$1", "sortedTasks", "sortedMapKeys", "sortedKeys"}, replayFuncs),
		Bounded:   []string{"textRoundTrip"},
		Technique: "contract-based deductive verification of identity dataflow: the create section puts title and body into the event unchanged; the set builder emits trimSpace(title) and the body verbatim; one iteration of the real replay loop copies the event's text into the addressed item and leaves every other item's text alone, for every event type; a created item carries the create event's text; the legacy-title migration is proved a no-op on titled items; show copies the fields; JSON encoding itself is trusted and exercised by a bounded stand-in through the real chain",
		Assume:    []string{"encoding/json round trip on strings (trusted table); BOUNDED stand-in: every string of 1..2 (thorough: 1..3) code points over 32 troublemakers (quotes, backslash, NUL, control, <>&, U+2028/9, BOM, U+FFFD, plane-1/16, combining) plus two strings of several hundred kilobytes through newEvent -> appendEvents -> readEvents -> replayEvents -> show JSON", "the command entry points (which input mode trims) are covered for flags (buildFlagUpdates), JSON getters and the --body-stdin helper (returns the bytes on stdin verbatim; io.ReadAll assumed); new task/new epic with --body-stdin are proved to create the item with exactly those bytes as body ([body-stdin-verbatim]); RunSet's wiring of the stdin body into the update map is under contract for C10/C16 only"},
	},
	"C18": {
		ID: "C18", Title: "Every command finds the same store, and init never hides data", Exclude: cat(txLabels, jsonLabels),
		Funcs:     cat(lockFuncs, []string{"getEventsPath", "ergoDir", "RunInit", "loadGraph"}, []string{"applyTombstone", "sortedKeys", "replayEvents"}),
		Census:    "log-path",
		Bounded:   []string{"resolveErgoDir"},
		Technique: "contract-based deductive verification with a ghost file-presence set: getEventsPath returns plans.jsonl if present, else events.jsonl if present, else plans.jsonl (proved on the body over os.Stat's contract); init never switches an existing store to another log file and removes nothing; withLock creates at most the lock file; structural census: every log primitive in the package receives a path that flows from getEventsPath; bounded stand-in for the directory search",
		Assume:    []string{"os.Stat succeeds exactly when the path exists (permission and I/O faults excluded); filepath.Join of a directory with two different plain file names yields different paths (trusted axiom)", "resolveErgoDir (nearest enclosing .ergo for every spelling of the start) is a BOUNDED stand-in: exhaustive over directory chains of depth <= 4 x all subsets of levels holding .ergo x 6 spellings; not counted as proved"},
	},
	"C20": {
		ID: "C20", Title: "Result attachments are confined, faithful and never lost", Exclude: cat(txLabels, jsonLabels),
		Funcs:     cat(lockFuncs, []string{"captureResultEvidence", "writeResultEvent$1", "writeResultEvent", "buildResultOutputItem", "buildResultOutputItems", "newEvent", "compactEvents", "sortedTasks$1", "sortedTasks", "sortedMapKeys", "sortedKeys"}, replayFuncs),
		Bounded:   []string{"validateResultPath"},
		Technique: "contract-based deductive verification: the result section appends only for a live, unpruned, non-epic task and records exactly the cleaned path and the captured evidence; captureResultEvidence is verified on its body: the recorded hash is Sprintf(%x, Sum256(bytes read from Join(repoDir, path))), composed in the section into `the event's sha256 is the hex digest of the file at the confined path` ([hash-of-file]); the replay loop prepends a result event's fields to the addressed live task and leaves every other task's results (length and elements) untouched for every event type; the output builder copies results in order; bounded stand-in for the lexical path confinement",
		Assume:    []string{"os.ReadFile (returns the bytes of the named file at that moment), sha256.Sum256 and fmt.Sprintf (deterministic uninterpreted functions of their operands), getGitHead and deriveFileURL are assumed contracts; that the digest really is SHA-256 and the format really is lower-case hex is library behaviour outside the proof; validateResultPath is a BOUNDED stand-in (all strings of length <= 6 over {./aergo} plus a curated list against a component-wise oracle on a real temp tree); re-emission under compaction is compactEvents' step clause [results-tail] (oldest first, every evidence field), part of this check"},
	},
	"C11": {
		ID: "C11", Exclude: jsonLabels, Title: "plan creates the whole described graph or nothing",
		Funcs:     cat(lockFuncs, []string{"RunPlan", "RunPlan$1", "(*PlanInput).Validate", "appendEventsAtomically", "newEvent", "newShortID", "isReachable", "hasCycle"}, replayFuncs),
		Bounded:   []string{"planParse"},
		Technique: "contract-based deductive verification: Validate's postcondition (non-blank title and task titles, distinct titles, every after names another task of the plan, non-empty task list) is the precondition of the plan section; the section's loop invariants carry, for every input position, the exact new_epic/new_task event (id, epic, todo, title, body), the reported id, pairwise distinct fresh ids outside graph and tombstones, and for every reported edge the link event with the same endpoints named by some after entry; one atomic replace appends exactly these events after the unchanged prefix; every failing path leaves log version and commit count unchanged",
		Assume:    []string{"ParsePlanInput (strict JSON decoding: unknown keys, several values) is an assumed contract exercised by the BOUNDED stand-in planParse (22 payloads per parser x 6 tails through the real function with stdin replaced by a pipe); hasPlanCycle (title-level cycle text) is an assumed contract; rejection of cyclic after-graphs is proved through the id-level hasCycle guard inside the section", "that a later read shows the created items is the composition with replayEvents' step clauses [created-from-event] and [text] (C06/C17), stated per event, not as one end-to-end lemma", "completeness of edges (every after entry yields an edge unless it repeats one) is not stated; the statement proved is soundness: every written and reported edge is named by an after entry", "replaceEventsAtomically is an assumed contract until the storage layer is under contract (C03/C04)"},
	},
	"C14": {
		ID: "C14", Exclude: cat(txLabels, jsonLabels), Title: "Every task's epic reference names a live epic",
		Funcs:     cat([]string{"createTaskWithDir$1", "applySetUpdates$1", "buildSetEvents", "selectPruneTargets", "newEvent"}, replayFuncs),
		Technique: "contract-based deductive verification: creation and epic reassignment require an existing, unpruned epic (postconditions of the two sections over the graph read under the lock); epics get no epic; prune policy removes an epic only together with all its (finished) children",
		Assume:    []string{"the tree builder's placement is not yet under contract; plan's tasks are created inside the epic it creates in the same commit (C11 [task-events])", "writer induction as in C06"},
	},
	"C15": {
		ID: "C15", Title: "Accepted plans can always make progress", Exclude: cat(txLabels, jsonLabels),
		Funcs:     cat([]string{"verifLemmaProgress", "isReachable", "hasCycle", "writeLinkEvent$1", "newEvent", "buildSetEvents", "validateTransition", "validateClaimInvariant"}, readyFuncs, replayFuncs),
		Technique: "contract-based deductive verification: (1) ghost lemma, discharged by the solver: if the effective waits-for relation has a strict rank and nothing is doing/blocked/error, the unfinished task of minimal rank is ready by the proved meaning of isReady; (2) writer obligation: appending a link must extend a rank of the waits-for relation - this obligation FAILS on the link section and is the recorded finding",
		Assume:    []string{"existence of a rank-minimal unfinished task in a finite store is the (trusted) well-foundedness of < on a finite set", "the lemma's premise that a todo task is unclaimed is the claim invariant of C06: the set builder and the replay step clause that maintain it are part of this check", "epic reassignment, creation inside an epic and plan also extend the waits-for relation and are not yet under this obligation"},
	},
	"C16": {
		ID: "C16", Exclude: txLabels, Title: "--json output is a single value and tells the truth",
		Funcs:     cat(lockFuncs, sectionFuncs, outerFuncs, commandFuncs, []string{"RunList", "RunWhere", "buildTaskListItems", "buildTaskShowOutput", "sortByCreatedAt$1", "sortByCreatedAt", "collectNonEpicTasks", "filterActiveTasks", "filterReadyTasks", "computeStatsForTasks", "withCurrentState"}, helperFuncs, readyFuncs, replayFuncs),
		Technique: "contract-based deductive verification: ghost output counters (stdoutJSON, stdoutText) bumped by the trusted contracts of writeJSON and fmt.Print*; per command: success with --json writes exactly one JSON value and no text, failure at most one; create's reply equals the appended event; when follow-up updates of `new task` committed anything, the reply's state is taken from a read of the log at its final version (ghost readVersion; defect repaired)",
		Assume:    append([]string{"cmd/ergo wiring (cobra, exitErr, quickstart/version) is outside the package under contract", "list and where are part of this check (one JSON value, flags equal to the proved predicates)"}, lockAssume...),
	},
}
