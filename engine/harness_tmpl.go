package main

// harnessSource is injected (go test -overlay) into package ergo next to a generated test; it builds
// argument values from a JSON description with reflection and dumps results and the reachable heap.
const harnessSource = `package ergo

import (
	"encoding/json"
	"errors"
	"fmt"
	"os"
	"reflect"
	"time"
)

type verifSpec struct {
	Kind    string               ` + "`json:\"kind\"`" + `
	ID      int64                ` + "`json:\"id,omitempty\"`" + `
	Str     string               ` + "`json:\"str,omitempty\"`" + `
	Int     int64                ` + "`json:\"int,omitempty\"`" + `
	Bool    bool                 ` + "`json:\"bool,omitempty\"`" + `
	Fields  map[string]*verifSpec ` + "`json:\"fields,omitempty\"`" + `
	Entries [][2]*verifSpec      ` + "`json:\"entries,omitempty\"`" + `
	Elems   []*verifSpec         ` + "`json:\"elems,omitempty\"`" + `
	Off     int64                ` + "`json:\"off,omitempty\"`" + `
	Cap     int64                ` + "`json:\"cap,omitempty\"`" + `
	Type    string               ` + "`json:\"type,omitempty\"`" + `
}

type verifBuilder struct {
	objs map[string]reflect.Value // "type:id" -> pointer/map value
	ids  map[uintptr]int64        // address -> id (for dumping)
	next int64
	seen map[string]bool
}

func newVerifBuilder() *verifBuilder {
	return &verifBuilder{objs: map[string]reflect.Value{}, ids: map[uintptr]int64{}, next: 1000000, seen: map[string]bool{}}
}

var verifTimeType = reflect.TypeOf(time.Time{})
var verifErrType = reflect.TypeOf((*error)(nil)).Elem()

func (b *verifBuilder) build(t reflect.Type, s *verifSpec) reflect.Value {
	if s == nil || s.Kind == "nil" {
		return reflect.Zero(t)
	}
	if t == verifTimeType {
		if s.Int == 0 {
			return reflect.ValueOf(time.Time{})
		}
		return reflect.ValueOf(time.Unix(0, s.Int).UTC())
	}
	if t == verifErrType {
		if s.Int == 0 {
			return reflect.Zero(t)
		}
		return reflect.ValueOf(errors.New(fmt.Sprintf("verif-error-%d", s.Int))).Convert(t)
	}
	switch t.Kind() {
	case reflect.String:
		return reflect.ValueOf(s.Str).Convert(t)
	case reflect.Bool:
		return reflect.ValueOf(s.Bool).Convert(t)
	case reflect.Int, reflect.Int64, reflect.Int32, reflect.Uint8, reflect.Uint32:
		v := reflect.New(t).Elem()
		if t.Kind() == reflect.Uint8 || t.Kind() == reflect.Uint32 {
			v.SetUint(uint64(s.Int))
		} else {
			v.SetInt(s.Int)
		}
		return v
	case reflect.Ptr:
		key := t.String() + ":" + fmt.Sprint(s.ID)
		if v, ok := b.objs[key]; ok {
			return v
		}
		p := reflect.New(t.Elem())
		b.objs[key] = p
		b.ids[p.Pointer()] = s.ID
		if t.Elem().Kind() == reflect.Struct {
			for i := 0; i < t.Elem().NumField(); i++ {
				f := t.Elem().Field(i)
				if fs, ok := s.Fields[f.Name]; ok {
					p.Elem().Field(i).Set(b.build(f.Type, fs))
				}
			}
		} else if fs, ok := s.Fields["*"]; ok {
			p.Elem().Set(b.build(t.Elem(), fs))
		}
		return p
	case reflect.Map:
		key := t.String() + ":" + fmt.Sprint(s.ID)
		if v, ok := b.objs[key]; ok {
			return v
		}
		m := reflect.MakeMap(t)
		b.objs[key] = m
		b.ids[m.Pointer()] = s.ID
		for _, e := range s.Entries {
			m.SetMapIndex(b.build(t.Key(), e[0]), b.build(t.Elem(), e[1]))
		}
		return m
	case reflect.Slice:
		n := len(s.Elems)
		c := int(s.Cap)
		if c < n {
			c = n
		}
		sl := reflect.MakeSlice(t, n, c)
		for i, e := range s.Elems {
			sl.Index(i).Set(b.build(t.Elem(), e))
		}
		if n > 0 || c > 0 {
			b.ids[sl.Pointer()] = s.ID
		}
		return sl
	case reflect.Struct:
		v := reflect.New(t).Elem()
		for i := 0; i < t.NumField(); i++ {
			f := t.Field(i)
			if fs, ok := s.Fields[f.Name]; ok {
				v.Field(i).Set(b.build(f.Type, fs))
			}
		}
		return v
	}
	panic("verif harness: unsupported type " + t.String())
}

func (b *verifBuilder) idOf(p uintptr) int64 {
	if id, ok := b.ids[p]; ok {
		return id
	}
	b.next++
	b.ids[p] = b.next
	return b.next
}

func (b *verifBuilder) dump(v reflect.Value) *verifSpec {
	t := v.Type()
	if t == verifTimeType {
		tm := v.Interface().(time.Time)
		if tm.IsZero() {
			return &verifSpec{Kind: "time", Int: 0}
		}
		return &verifSpec{Kind: "time", Int: tm.UnixNano()}
	}
	if t == verifErrType {
		if v.IsNil() {
			return &verifSpec{Kind: "err", Int: 0}
		}
		return &verifSpec{Kind: "err", Int: 1, Str: v.Interface().(error).Error()}
	}
	switch t.Kind() {
	case reflect.String:
		return &verifSpec{Kind: "str", Str: v.String()}
	case reflect.Bool:
		return &verifSpec{Kind: "bool", Bool: v.Bool()}
	case reflect.Int, reflect.Int64, reflect.Int32:
		return &verifSpec{Kind: "int", Int: v.Int()}
	case reflect.Uint8, reflect.Uint32:
		return &verifSpec{Kind: "int", Int: int64(v.Uint())}
	case reflect.Ptr:
		if v.IsNil() {
			return &verifSpec{Kind: "nil"}
		}
		id := b.idOf(v.Pointer())
		key := t.String() + ":" + fmt.Sprint(id)
		s := &verifSpec{Kind: "ptr", ID: id, Type: t.Elem().Name()}
		if b.seen[key] {
			return s
		}
		b.seen[key] = true
		s.Fields = map[string]*verifSpec{}
		if t.Elem().Kind() == reflect.Struct {
			for i := 0; i < t.Elem().NumField(); i++ {
				s.Fields[t.Elem().Field(i).Name] = b.dump(v.Elem().Field(i))
			}
		} else {
			s.Fields["*"] = b.dump(v.Elem())
		}
		return s
	case reflect.Map:
		if v.IsNil() {
			return &verifSpec{Kind: "nil"}
		}
		id := b.idOf(v.Pointer())
		key := t.String() + ":" + fmt.Sprint(id)
		s := &verifSpec{Kind: "map", ID: id}
		if b.seen[key] {
			return s
		}
		b.seen[key] = true
		iter := v.MapRange()
		for iter.Next() {
			s.Entries = append(s.Entries, [2]*verifSpec{b.dump(iter.Key()), b.dump(iter.Value())})
		}
		return s
	case reflect.Slice:
		if v.IsNil() {
			return &verifSpec{Kind: "nil"}
		}
		s := &verifSpec{Kind: "slice", Cap: int64(v.Cap())}
		if v.Cap() > 0 {
			s.ID = b.idOf(v.Pointer())
		} else {
			b.next++
			s.ID = b.next
		}
		for i := 0; i < v.Len(); i++ {
			s.Elems = append(s.Elems, b.dump(v.Index(i)))
		}
		return s
	case reflect.Struct:
		s := &verifSpec{Kind: "struct", Fields: map[string]*verifSpec{}, Type: t.Name()}
		for i := 0; i < t.NumField(); i++ {
			s.Fields[t.Field(i).Name] = b.dump(v.Field(i))
		}
		return s
	case reflect.Interface:
		if v.IsNil() {
			return &verifSpec{Kind: "nil"}
		}
		return b.dump(v.Elem())
	}
	return &verifSpec{Kind: "unsupported", Str: t.String()}
}

type verifOutput struct {
	Panicked string       ` + "`json:\"panicked,omitempty\"`" + `
	Results  []*verifSpec ` + "`json:\"results\"`" + `
	Args     []*verifSpec ` + "`json:\"args\"`" + `
}

func verifLoadCases() [][]*verifSpec {
	data, err := os.ReadFile(os.Getenv("VERIF_REPLAY_IN"))
	if err != nil {
		panic(err)
	}
	var cases [][]*verifSpec
	if err := json.Unmarshal(data, &cases); err != nil {
		panic(err)
	}
	return cases
}

func verifWrite(outs []*verifOutput) {
	data, _ := json.Marshal(outs)
	_ = os.WriteFile(os.Getenv("VERIF_REPLAY_OUT"), data, 0644)
}
`
