package main

import (
	"encoding/json"
	"flag"
	"fmt"
	"os"
	"path/filepath"
	"sort"
	"strings"
)

func main() {
	if len(os.Args) < 2 {
		fmt.Fprintln(os.Stderr, "usage: ergoverify <funcs|check|selftest> ...")
		os.Exit(2)
	}
	switch os.Args[1] {
	case "funcs":
		cmdFuncs(os.Args[2:])
	case "check":
		cmdCheck(os.Args[2:])
	case "baseline":
		cmdBaseline(os.Args[2:])
	case "replay":
		cmdReplay(os.Args[2:])
	default:
		fmt.Fprintln(os.Stderr, "unknown command", os.Args[1])
		os.Exit(2)
	}
}

func scratchDir() string {
	base := os.Getenv("VERIF_SCRATCH")
	if base == "" {
		base = "/dev/shm"
	}
	dir := filepath.Join(base, fmt.Sprintf("ergoverify.%d", os.Getpid()))
	if err := os.MkdirAll(dir, 0755); err != nil {
		// no usable /dev/shm (or VERIF_SCRATCH): fall back to the system temp directory
		if d, err2 := os.MkdirTemp("", "ergoverify."); err2 == nil {
			return d
		}
	}
	return dir
}

// cmdFuncs: development entry: verify the listed functions and print a table.
func cmdFuncs(args []string) {
	fs := flag.NewFlagSet("funcs", flag.ExitOnError)
	repo := fs.String("repo", "/repo", "repository root")
	contracts := fs.String("contracts", "", "contract file (default <repo>/internal/ergo/verif_contracts.go)")
	timeout := fs.Int("timeout", 10, "per-query timeout (s)")
	dump := fs.String("dump", "", "write SMT queries of failing obligations here")
	dumpAll := fs.Bool("dumpall", false, "dump every solved query")
	all := fs.Bool("all", false, "wait for all solvers")
	only := fs.String("only", "", "substring filter on obligation names")
	split := fs.Bool("split", false, "split failing goals into conjuncts and report the failing ones")
	blockCover := fs.Bool("blockcover", false, "report blocks no admitted execution reaches (vacuity diagnostic)")
	_ = fs.Parse(args)
	cpath := *contracts
	if cpath == "" {
		cpath = filepath.Join(*repo, "internal/ergo/verif_contracts.go")
	}
	eng, err := loadEngine(*repo, cpath)
	if err != nil {
		fmt.Fprintln(os.Stderr, "ENGINE-ERROR", err)
		os.Exit(2)
	}
	eng.findings = loadFindings(filepath.Join(verifRoot(), "known_findings.jsonl"))
	names := fs.Args()
	if len(names) == 0 {
		for _, n := range eng.cf.Order {
			names = append(names, n)
		}
	}
	scratch := scratchDir()
	defer os.RemoveAll(scratch)
	var results []*FuncResult
	for _, n := range names {
		fn, ok := eng.funcs[n]
		if !ok {
			fmt.Fprintf(os.Stderr, "no such function %s\n", n)
			var known []string
			for k := range eng.funcs {
				if strings.Contains(k, strings.Trim(n, "()*")) {
					known = append(known, k)
				}
			}
			sort.Strings(known)
			fmt.Fprintln(os.Stderr, "  similar:", known)
			continue
		}
		results = append(results, eng.encodeFunction(fn))
	}
	var filter func(o *Obligation) bool
	if *only != "" {
		filter = func(o *Obligation) bool { return strings.Contains(o.Name, *only) }
	}
	discharge(scratch, results, *timeout, *all, filter)
	if *split {
		for _, r := range results {
			for _, o := range r.Obligations {
				if o.Result == nil || o.Result.Status == "unsat" || o.Kind == "canary" {
					continue
				}
				parts := splitGoal(o.Goal.S)
				if len(parts) < 2 {
					continue
				}
				for i, p := range parts {
					o2 := *o
					o2.Goal = Term{p, SBool}
					o2.Name = fmt.Sprintf("%s~part%d", o.Name, i)
					rr := runStaged(scratch, o2.Name, r.Enc.queryFor(&o2), []string{r.Enc.queryForMode(&o2, modeSelf), r.Enc.queryForMode(&o2, modePost), r.Enc.queryForMode(&o2, modeLocal)}, nil, *timeout, false)
					if rr.Status != "unsat" {
						txt := p
						if len(txt) > 300 {
							txt = txt[:300] + "..."
						}
						fmt.Printf("   SPLIT %s part %d/%d %s: %s\n", o.Name, i, len(parts), rr.Status, txt)
					}
				}
			}
		}
	}
	if *blockCover {
		for _, r := range results {
			if !r.Trusted {
				r.DeadBlocks, _ = blockCovers(scratch, r, 60)
			}
		}
	}
	fmt.Print(summarize(results))
	if *dump != "" {
		_ = os.MkdirAll(*dump, 0755)
		for _, r := range results {
			for _, o := range r.Obligations {
				if o.Result != nil && (*dumpAll || o.Result.Status != "unsat") {
					_ = os.WriteFile(filepath.Join(*dump, sanitize(o.Name)+".smt2"), []byte(r.Enc.queryFor(o)+"(check-sat)\n"), 0644)
					_ = os.WriteFile(filepath.Join(*dump, sanitize(o.Name)+".post.smt2"), []byte(lambdaFrames(r.Enc.queryForMode(o, modePost))+"(check-sat)\n"), 0644)
					_ = os.WriteFile(filepath.Join(*dump, sanitize(o.Name)+".self.smt2"), []byte(lambdaFrames(r.Enc.queryForMode(o, modeSelf))+"(check-sat)\n"), 0644)
					_ = os.WriteFile(filepath.Join(*dump, sanitize(o.Name)+".local.smt2"), []byte(lambdaFrames(r.Enc.queryForMode(o, modeLocal))+"(check-sat)\n"), 0644)
				}
			}
		}
	}
}

// cmdReplay re-runs a recorded counterexample against the real code in /repo (or $VERIF_REPO): the inputs stored
// in the replay file are fed to the real function again and its postconditions are evaluated on the observed run.
// Exit 1 when the violation reproduces, 0 when it does not, 2 when the file carries no concrete inputs.
func cmdReplay(args []string) {
	if len(args) < 1 {
		fmt.Fprintln(os.Stderr, "usage: ergoverify replay <file>")
		os.Exit(2)
	}
	data, err := os.ReadFile(args[0])
	if err != nil {
		fmt.Fprintln(os.Stderr, err)
		os.Exit(2)
	}
	var rec struct {
		Property   string        `json:"property"`
		Obligation string        `json:"obligation"`
		Clause     string        `json:"clause"`
		Replay     *ReplayResult `json:"replay"`
	}
	if err := json.Unmarshal(data, &rec); err != nil {
		fmt.Fprintln(os.Stderr, err)
		os.Exit(2)
	}
	fmt.Printf("property %s, obligation %s\n  %s\n", rec.Property, rec.Obligation, rec.Clause)
	if rec.Replay == nil || rec.Replay.Inputs == "" || !rec.Replay.Confirmed {
		fmt.Println("this replay file carries no confirmed concrete input (no-failing-input-found); the solver output is in the file")
		os.Exit(2)
	}
	repo := "/repo"
	if r := os.Getenv("VERIF_REPO"); r != "" {
		repo = r
	}
	eng, err := loadEngine(repo, filepath.Join(repo, "internal/ergo/verif_contracts.go"))
	if err != nil {
		fmt.Println("ENGINE-ERROR", err)
		os.Exit(2)
	}
	fname := rec.Obligation
	if i := strings.Index(fname, "/"); i > 0 {
		fname = fname[:i]
	}
	fn, ok := eng.funcs[fname]
	if !ok {
		fmt.Println("function not found:", fname)
		os.Exit(2)
	}
	var in []*spec
	if err := json.Unmarshal([]byte(rec.Replay.Inputs), &in); err != nil {
		fmt.Println("bad inputs:", err)
		os.Exit(2)
	}
	scratch := scratchDir()
	defer os.RemoveAll(scratch)
	out, _, cmdline, logText := eng.runHarness(scratch, fn, in)
	fmt.Println("ran:", cmdline)
	if out == nil {
		fmt.Println("replay run failed:", logText)
		os.Exit(2)
	}
	if out.Panicked != "" {
		fmt.Println("REPRODUCED: the real function panicked:", out.Panicked)
		os.Exit(1)
	}
	failed, detail := eng.evalClausesConcrete(scratch, fn, in, out, "ensures")
	fmt.Print(detail)
	if len(failed) > 0 {
		fmt.Println("REPRODUCED:", strings.Join(failed, ", "))
		os.Exit(1)
	}
	fmt.Println("not reproduced on this tree")
	os.Exit(0)
}
