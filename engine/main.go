package main

import (
	"flag"
	"fmt"
	"os"
	"path/filepath"
	"sort"
	"strings"
)

func main() {
	if len(os.Args) < 2 {
		fmt.Fprintln(os.Stderr, "usage: ergoverify <funcs|check|selftest> ...")
		os.Exit(2)
	}
	switch os.Args[1] {
	case "funcs":
		cmdFuncs(os.Args[2:])
	case "check":
		cmdCheck(os.Args[2:])
	case "baseline":
		cmdBaseline(os.Args[2:])
	default:
		fmt.Fprintln(os.Stderr, "unknown command", os.Args[1])
		os.Exit(2)
	}
}

func scratchDir() string {
	base := os.Getenv("VERIF_SCRATCH")
	if base == "" {
		base = "/dev/shm"
	}
	dir := filepath.Join(base, fmt.Sprintf("ergoverify.%d", os.Getpid()))
	_ = os.MkdirAll(dir, 0755)
	return dir
}

// cmdFuncs: development entry: verify the listed functions and print a table.
func cmdFuncs(args []string) {
	fs := flag.NewFlagSet("funcs", flag.ExitOnError)
	repo := fs.String("repo", "/repo", "repository root")
	contracts := fs.String("contracts", "", "contract file (default <repo>/internal/ergo/verif_contracts.go)")
	timeout := fs.Int("timeout", 10, "per-query timeout (s)")
	dump := fs.String("dump", "", "write SMT queries of failing obligations here")
	dumpAll := fs.Bool("dumpall", false, "dump every solved query")
	all := fs.Bool("all", false, "wait for all solvers")
	only := fs.String("only", "", "substring filter on obligation names")
	_ = fs.Parse(args)
	cpath := *contracts
	if cpath == "" {
		cpath = filepath.Join(*repo, "internal/ergo/verif_contracts.go")
	}
	eng, err := loadEngine(*repo, cpath)
	if err != nil {
		fmt.Fprintln(os.Stderr, "ENGINE-ERROR", err)
		os.Exit(2)
	}
	eng.findings = loadFindings(filepath.Join(verifRoot(), "known_findings.jsonl"))
	names := fs.Args()
	if len(names) == 0 {
		for _, n := range eng.cf.Order {
			names = append(names, n)
		}
	}
	scratch := scratchDir()
	defer os.RemoveAll(scratch)
	var results []*FuncResult
	for _, n := range names {
		fn, ok := eng.funcs[n]
		if !ok {
			fmt.Fprintf(os.Stderr, "no such function %s\n", n)
			var known []string
			for k := range eng.funcs {
				if strings.Contains(k, strings.Trim(n, "()*")) {
					known = append(known, k)
				}
			}
			sort.Strings(known)
			fmt.Fprintln(os.Stderr, "  similar:", known)
			continue
		}
		results = append(results, eng.encodeFunction(fn))
	}
	var filter func(o *Obligation) bool
	if *only != "" {
		filter = func(o *Obligation) bool { return strings.Contains(o.Name, *only) }
	}
	discharge(scratch, results, *timeout, *all, filter)
	fmt.Print(summarize(results))
	if *dump != "" {
		_ = os.MkdirAll(*dump, 0755)
		for _, r := range results {
			for _, o := range r.Obligations {
				if o.Result != nil && (*dumpAll || o.Result.Status != "unsat") {
					_ = os.WriteFile(filepath.Join(*dump, sanitize(o.Name)+".smt2"), []byte(r.Enc.queryFor(o)+"(check-sat)\n"), 0644)
				}
			}
		}
	}
}

