package main

import (
	"fmt"
	"os"
	"os/exec"
	"path/filepath"
	"sort"
	"strings"

	"golang.org/x/tools/go/ssa"
)

// Block covers: a vacuity diagnostic. For every basic block of a function under contract the conjunction
// "assumptions on the paths to the block ∧ block guard" is checked for satisfiability after every quantified
// conjunct has been removed. Removing conjuncts only weakens the formula, so an `unsat` answer is definite:
// no execution admitted by the contract reaches the block and every obligation in it holds vacuously. The
// queries are quantifier free, so the solver answers instead of giving up (the full cover query of a function
// with quantified invariants mostly ends in `unknown`).

type BlockCover struct {
	Blk   *ssa.BasicBlock
	Guard Term
}

// splitTop splits an s-expression "(head a b c)" into head and arguments; ok is false for atoms.
func splitTop(s string) (head string, args []string, ok bool) {
	s = strings.TrimSpace(s)
	if len(s) < 2 || s[0] != '(' || s[len(s)-1] != ')' {
		return "", nil, false
	}
	body := s[1 : len(s)-1]
	depth, start := 0, -1
	inBar := false
	var toks []string
	for i := 0; i < len(body); i++ {
		ch := body[i]
		if inBar {
			if ch == '|' {
				inBar = false
			}
			continue
		}
		switch {
		case ch == '|':
			inBar = true
			if start < 0 {
				start = i
			}
		case ch == '(':
			if depth == 0 && start < 0 {
				start = i
			}
			depth++
		case ch == ')':
			depth--
			if depth == 0 && start >= 0 && body[start] == '(' {
				toks = append(toks, body[start:i+1])
				start = -1
			}
		case ch == ' ' || ch == '\n' || ch == '\t':
			if depth == 0 && start >= 0 {
				toks = append(toks, body[start:i])
				start = -1
			}
		default:
			if depth == 0 && start < 0 {
				start = i
			}
		}
	}
	if start >= 0 {
		toks = append(toks, body[start:])
	}
	if len(toks) == 0 {
		return "", nil, false
	}
	return toks[0], toks[1:], true
}

func hasQuant(s string) bool {
	return strings.Contains(s, "(forall ") || strings.Contains(s, "(exists ")
}

// stripQuantified returns quantifier-free consequences of the assertion s (possibly none).
func stripQuantified(s string) []string {
	if !hasQuant(s) {
		return []string{s}
	}
	head, args, ok := splitTop(s)
	if !ok {
		return nil
	}
	switch head {
	case "and":
		var out []string
		for _, a := range args {
			out = append(out, stripQuantified(a)...)
		}
		return out
	case "=>":
		if len(args) == 2 && !hasQuant(args[0]) {
			var out []string
			for _, x := range stripQuantified(args[1]) {
				out = append(out, fmt.Sprintf("(=> %s %s)", args[0], x))
			}
			return out
		}
	case "!":
		if len(args) >= 1 {
			return stripQuantified(args[0])
		}
	}
	return nil
}

// blockCovers reports the blocks of r's function that no admitted execution reaches.
func blockCovers(scratch string, r *FuncResult, timeoutS int) (dead []string, checked int) {
	c := r.Enc
	if c == nil || len(r.BlockCovers) == 0 {
		return nil, 0
	}
	var b strings.Builder
	b.WriteString(c.prelude())
	b.WriteString("(declare-fun strLen (Int) Int)\n(assert (= (strLen 0) 0))\n")
	b.WriteString("(declare-fun idx (Int Int) Int)\n")
	for _, d := range c.decls {
		b.WriteString(d)
		b.WriteString("\n")
	}
	for _, l := range strings.Split(c.literalAxioms(), "\n") {
		if l != "" && !hasQuant(l) {
			b.WriteString(l + "\n")
		}
	}
	for _, a := range c.asserts {
		for _, s := range stripQuantified(a.S) {
			b.WriteString("(assert " + s + ")\n")
		}
	}
	for _, bc := range r.BlockCovers {
		fmt.Fprintf(&b, "(push)\n(assert %s)\n(check-sat)\n(pop)\n", bc.Guard.S)
	}
	file := filepath.Join(scratch, sanitize(r.Func)+".blockcover.smt2")
	if err := os.WriteFile(file, []byte(b.String()), 0644); err != nil {
		return nil, 0
	}
	out, _ := exec.Command("z3-new", fmt.Sprintf("-T:%d", timeoutS), file).CombinedOutput()
	lines := strings.Split(strings.TrimSpace(string(out)), "\n")
	for i, bc := range r.BlockCovers {
		if i >= len(lines) {
			break
		}
		checked++
		if strings.TrimSpace(lines[i]) == "unsat" {
			pos := ""
			for _, ins := range bc.Blk.Instrs {
				if p := ins.Pos(); p.IsValid() {
					pp := r.Enc.eng.prog.Fset.Position(p)
					pos = fmt.Sprintf("%s:%d", filepath.Base(pp.Filename), pp.Line)
					break
				}
			}
			dead = append(dead, fmt.Sprintf("block %d (%s) %s", bc.Blk.Index, bc.Blk.Comment, pos))
		}
	}
	sort.Strings(dead)
	return dead, checked
}

// splitGoal flattens a goal into conjuncts: (and a b) and (=> g (and a b)) are split recursively.
func splitGoal(s string) []string {
	head, args, ok := splitTop(s)
	if !ok {
		return []string{s}
	}
	switch head {
	case "and":
		var out []string
		for _, a := range args {
			out = append(out, splitGoal(a)...)
		}
		return out
	case "=>":
		if len(args) == 2 {
			var out []string
			for _, x := range splitGoal(args[1]) {
				out = append(out, fmt.Sprintf("(=> %s %s)", args[0], x))
			}
			return out
		}
	case "forall":
		if len(args) == 2 {
			var out []string
			for _, x := range splitGoal(args[1]) {
				out = append(out, fmt.Sprintf("(forall %s %s)", args[0], x))
			}
			return out
		}
	}
	return []string{s}
}
