package main

import (
	"fmt"
	"sort"
	"strings"
	"sync"
	"time"

	"golang.org/x/tools/go/ssa"
)

type FuncResult struct {
	Func        string
	Enc         *Enc
	Obligations []*Obligation
	Errors      []string
	CoverGuard  Term
	Cover       *SolverResult
	EncodeS     float64
	Trusted     bool
	BlockCovers []BlockCover
	DeadBlocks  []string
}

// verifyFunction generates all obligations of one function under contract.
func (e *Engine) encodeFunction(fn *ssa.Function) *FuncResult {
	start := time.Now()
	c := newEnc(e, fn)
	key := funcKey(fn)
	fr := c.newFrame(fn, true)
	c.topFrame = fr
	fc := fr.fc
	res := &FuncResult{Func: key, Enc: c}
	if fc != nil && fc.Trusted != "" {
		res.Trusted = true
		return res
	}
	st := &State{h: map[string]Term{}}
	c.heapVar("nextRef", SInt)
	vars := map[string]TV{}
	for _, p := range fn.Params {
		sym := Term{"p_" + sanitize(p.Name()), c.sortOf(p.Type())}
		c.declare(sym.S, sym.Sort)
		fr.vals[p] = sym
		fr.assumeAllocated(p.Type(), sym, st)
		vars[p.Name()] = TV{sym, p.Type()}
		c.modelVars = append(c.modelVars, sym.S)
	}
	for _, fv := range fn.FreeVars {
		pl := fr.place(fv)
		fr.assumeAllocated(pl.Type, fr.load(pl, st), st)
	}
	mk := func(cur *State) *EvalCtx {
		x := fr.evalCtxAt(cur, &State{h: map[string]Term{}}, nil, nil)
		for k, v := range vars {
			x.vars[k] = v
		}
		return x
	}
	// axioms of the contract file (trusted facts about uninterpreted functions): asserted when the function's
	// encoding mentions one of the symbols they constrain (decided after encoding, see below)
	if fc != nil && len(fc.clauses("callpre")) > 0 {
		st.h[c.cellVar("CB_called", tyBool)] = False
	}
	// objects named by "modifies ... at e" (evaluated in the entry state)
	c.topAtRefs = map[string][]Term{}
	if fc != nil {
		for _, m := range fc.Modifies {
			if m.At == nil {
				continue
			}
			if tv, ok := mk(st).evalAny(m.At); ok {
				for _, h := range c.modifiesHeaps(m.Pat) {
					c.topAtRefs[h] = append(c.topAtRefs[h], atRef(tv))
				}
			}
		}
	}
	if fc != nil {
		for _, cl := range fc.clauses("requires") {
			if strings.HasPrefix(cl.Label, "callback:") {
				continue
			}
			if g, ok := mk(st).evalBool(cl.Expr); ok {
				c.assumeClause(True, g, cl.Label)
			}
		}
	}
	func() {
		defer func() {
			if r := recover(); r != nil {
				c.errorf("%s: encoder panic: %v", key, r)
			}
		}()
		fr.encodeBody(True, st)
	}()
	// trusted axioms: only those whose uninterpreted symbols occur in this function's encoding
	for _, ax := range e.cf.Axioms {
		relevant := false
		for _, sym := range []string{"ext_path_filepath.Join_2"} {
			if c.declared[sym] && strings.Contains(ax.Text, "pathJoin") {
				relevant = true
			}
		}
		if !relevant {
			continue
		}
		x := &EvalCtx{c: c, fr: fr, st: &State{h: map[string]Term{}}, old: &State{h: map[string]Term{}}, vars: map[string]TV{}}
		if g, ok := x.evalBool(ax.Expr); ok {
			// inserted as a global fact (valid in every state: it mentions no heap)
			c.asserts = append([]Term{g}, c.asserts...)
			c.assertBlk = append([]*ssa.BasicBlock{nil}, c.assertBlk...)
			c.assertTag = append([]string{""}, c.assertTag...)
			c.assertHeavy = append([]bool{false}, c.assertHeavy...)
			for _, o := range c.obls {
				o.NAsserts++
			}
			for i := range c.sortTotal {
				c.sortTotal[i].nAsserts++
			}
			c.trusted["axiom "+ax.Label] = ax.Text
		}
	}
	// merge returns
	var edges []*edge
	for _, r := range fr.rets {
		edges = append(edges, &edge{cond: r.guard, st: r.st})
	}
	atRet, stRet := fr.merge(edges, "ret")
	res.CoverGuard = atRet
	for _, b := range fn.Blocks {
		if g, ok := fr.at[b]; ok {
			res.BlockCovers = append(res.BlockCovers, BlockCover{Blk: b, Guard: g})
		}
	}
	nres := fn.Signature.Results().Len()
	names := resultNames(fn)
	for i := 0; i < nres; i++ {
		rt := fn.Signature.Results().At(i).Type()
		var t Term
		if len(fr.rets) == 1 {
			t = fr.rets[0].vals[i]
		} else {
			t = c.fresh("result", c.sortOf(rt))
			for _, r := range fr.rets {
				c.assume(r.guard, Eq(t, r.vals[i]))
			}
		}
		for _, n := range names[i] {
			vars[n] = TV{t, rt}
		}
	}
	if fc != nil {
		for _, cl := range fc.clauses("ensures") {
			if g, ok := mk(stRet).evalBool(cl.Expr); ok {
				name := fmt.Sprintf("%s/ensures[%s]", key, cl.Label)
				c.obligeClause(cl, name, "ensures", atRet, g, cl.Text)
				// residual query of a recorded finding: the clause must hold outside the recorded shape
				for _, f := range e.findings {
					if f.Kind == "finding" && f.Obligation == name && f.Shape != "" {
						sx, err := parseExpr(f.Shape)
						if err != nil {
							c.errorf("known finding %s: bad shape: %v", name, err)
							continue
						}
						if sh, ok := mk(stRet).evalBool(sx); ok {
							c.oblige(name+"~residual", "residual", atRet, Or(sh, g), "outside the recorded shape ("+f.Shape+"): "+cl.Text)
						}
					}
				}
			}
		}
	}
	// assumed clauses of an otherwise verified function (listed as assumptions, not proved)
	if fc != nil {
		for _, cl := range fc.clauses("assume") {
			c.trusted["ASSUMED clause ["+cl.Label+"] of "+key] = cl.Text
		}
	}
	// canaries: clauses that must NOT be provable (reachability of the interesting paths)
	if fc != nil {
		for _, cl := range fc.clauses("canary") {
			if g, ok := mk(stRet).evalBool(cl.Expr); ok {
				c.obligeClause(cl, fmt.Sprintf("%s/canary[%s]", key, cl.Label), "canary", atRet, g, cl.Text)
			}
		}
	}
	// frame obligations
	declared := map[string]bool{}
	if fc != nil {
		for _, m := range fc.Modifies {
			if m.At != nil {
				continue
			}
			for _, h := range c.modifiesHeaps(m.Pat) {
				if strings.HasPrefix(h, "CELL:") {
					name := strings.TrimPrefix(h, "CELL:")
					for _, fv := range fn.FreeVars {
						if fv.Name() == name {
							declared[fr.place(fv).Heap] = true
						}
					}
					continue
				}
				declared[h] = true
			}
		}
	}
	for _, w := range sortedKeysOf(keysOfState(stRet)) {
		if declared[w] {
			continue
		}
		cur := c.get(stRet, w)
		init := c.heapInit[w]
		if cur.S == init.S {
			continue
		}
		switch {
		case isLocationHeap(w):
			c.oblige(fmt.Sprintf("%s/frame[%s]", key, w), "frame", atRet, c.frameFormula(stRet, w), "locations allocated before the call keep their content in "+w)
		case strings.HasPrefix(w, "GL_") || strings.HasPrefix(w, "G_") || strings.HasPrefix(w, "FV_"):
			c.oblige(fmt.Sprintf("%s/frame[%s]", key, w), "frame", atRet, Eq(cur, init), w+" is not in the modifies clause and keeps its value")
		}
	}
	// optional obligations (sort determinism) are appended with their own background prefix
	for _, so := range c.sortTotal {
		if !c.option("sort-total") {
			break
		}
		o := &Obligation{Name: so.name, Kind: "total-order", Guard: so.guard, Goal: so.goal, NAsserts: so.nAsserts, Func: key, Blk: so.blk, Text: "comparator " + so.cmp + " orders every two distinct positions"}
		c.obls = append(c.obls, o)
	}
	res.Obligations = c.obls
	res.Errors = c.errs
	res.EncodeS = time.Since(start).Seconds()
	return res
}

func keysOfState(st *State) map[string]bool {
	m := map[string]bool{}
	for k := range st.h {
		m[k] = true
	}
	return m
}

// discharge runs the solvers on all obligations of the given results.
func discharge(scratch string, results []*FuncResult, timeoutS int, all bool, filter func(o *Obligation) bool) {
	type job struct {
		fr *FuncResult
		o  *Obligation
	}
	var jobs []job
	for _, r := range results {
		for _, o := range r.Obligations {
			if filter != nil && !filter(o) {
				continue
			}
			jobs = append(jobs, job{r, o})
		}
	}
	var wg sync.WaitGroup
	sem := make(chan struct{}, 12)
	for _, j := range jobs {
		wg.Add(1)
		go func(j job) {
			defer wg.Done()
			sem <- struct{}{}
			defer func() { <-sem }()
			q := j.fr.Enc.queryFor(j.o)
			weak := []string{j.fr.Enc.queryForMode(j.o, modeSelf), j.fr.Enc.queryForMode(j.o, modePost), j.fr.Enc.queryForMode(j.o, modeLocal)}
			gv := j.fr.Enc.modelVars
			to := timeoutS
			if j.o.Kind == "canary" && to > 4 {
				to = 4 // canaries are expected to be refutable; a timeout is as good as sat for them
			}
			// thorough tier: every solver is waited for (and all must agree) on the obligations that come from contract
			// clauses; safety and frame obligations, the bulk, keep the first-answer rule
			r := runStaged(scratch, j.o.Name, q, weak, gv, to, all && j.o.Kind != "canary" && j.o.Label != "")
			j.o.Result = &r
		}(j)
	}
	// cover queries
	for _, r := range results {
		if r.Trusted || r.CoverGuard.S == "" {
			continue
		}
		wg.Add(1)
		go func(r *FuncResult) {
			defer wg.Done()
			sem <- struct{}{}
			defer func() { <-sem }()
			o := &Obligation{Name: r.Func + "/cover", Guard: r.CoverGuard, Goal: False, NAsserts: len(r.Enc.asserts)}
			q := r.Enc.queryFor(o)
			// cover: asserts ∧ guard ∧ ¬false must be satisfiable
			cr := runPortfolio(scratch, o.Name, q, nil, 3, false)
			r.Cover = &cr
		}(r)
	}
	wg.Wait()
}

func summarize(results []*FuncResult) string {
	var b strings.Builder
	for _, r := range results {
		fmt.Fprintf(&b, "== %s (%d obligations, encode %.2fs)\n", r.Func, len(r.Obligations), r.EncodeS)
		for _, e := range r.Errors {
			fmt.Fprintf(&b, "   ERROR %s\n", e)
		}
		if r.Cover != nil {
			fmt.Fprintf(&b, "   cover: %s (%s %.2fs)\n", r.Cover.Status, r.Cover.Solver, r.Cover.TimeS)
		}
		for _, d := range r.DeadBlocks {
			fmt.Fprintf(&b, "   DEAD %s\n", d)
		}
		obls := append([]*Obligation(nil), r.Obligations...)
		sort.SliceStable(obls, func(i, j int) bool { return false })
		for _, o := range obls {
			if o.Result == nil {
				fmt.Fprintf(&b, "   -        %s\n", o.Name)
				continue
			}
			fmt.Fprintf(&b, "   %-8s %s  (%s %.2fs)\n", o.Result.Status, o.Name, o.Result.Solver, o.Result.TimeS)
		}
	}
	return b.String()
}
