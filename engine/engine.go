package main

import (
	"fmt"
	"go/constant"
	"go/token"
	"go/types"
	"os"
	"regexp"
	"runtime/debug"
	"sort"
	"strings"
	"sync"

	"golang.org/x/tools/go/packages"
	"golang.org/x/tools/go/ssa"
	"golang.org/x/tools/go/ssa/ssautil"
)

// Engine holds the loaded program and the contracts.
type Engine struct {
	localsBase map[string][]localDecl // baseline/locals.json: variable lists of the functions under contract
	prog       *ssa.Program
	pkg        *ssa.Package
	tpkg       *types.Package
	fset       *token.FileSet
	cf         *ContractFile
	repo       string
	funcs      map[string]*ssa.Function // by contract name: "isReady", "RunPlan$1", "(*PlanInput).Validate"
	typeMem    map[string]types.Type
	wsMemo     map[*ssa.Function]map[string]bool
	initFacts  []initFact
	initDone   bool
	roMemo     map[*ssa.Global]bool
	findings   []Finding
}

type initFact struct {
	global string // global var name
	kind   string
}

func loadEngine(repo string, contractPath string) (*Engine, error) {
	cfg := &packages.Config{Mode: packages.LoadAllSyntax, Dir: repo, BuildFlags: []string{"-tags=verif"}}
	pkgs, err := packages.Load(cfg, "./internal/ergo")
	if err != nil {
		return nil, err
	}
	if len(pkgs) != 1 {
		return nil, fmt.Errorf("expected one package, got %d", len(pkgs))
	}
	if len(pkgs[0].Errors) > 0 {
		return nil, fmt.Errorf("package errors: %v", pkgs[0].Errors)
	}
	prog, spkgs := ssautil.AllPackages(pkgs, ssa.GlobalDebug)
	prog.Build()
	e := &Engine{prog: prog, pkg: spkgs[0], tpkg: pkgs[0].Types, fset: pkgs[0].Fset, repo: repo,
		funcs: map[string]*ssa.Function{}, typeMem: map[string]types.Type{}, wsMemo: map[*ssa.Function]map[string]bool{}}
	for fn := range ssautil.AllFunctions(prog) {
		if fn.Pkg != e.pkg {
			continue
		}
		e.funcs[funcKey(fn)] = fn
	}
	cf, err := parseContractFile(contractPath)
	if err != nil {
		return nil, err
	}
	e.cf = cf
	e.localsBase = loadLocalsBaseline()
	return e, nil
}

// funcKey gives the contract-file name of a function.
func funcKey(fn *ssa.Function) string {
	if fn.Parent() != nil {
		// anonymous: Parent$N
		return funcKey(fn.Parent()) + fn.Name()[strings.LastIndex(fn.Name(), "$"):]
	}
	if recv := fn.Signature.Recv(); recv != nil {
		t := recv.Type()
		star := ""
		if p, ok := t.(*types.Pointer); ok {
			star = "*"
			t = p.Elem()
		}
		if n, ok := t.(*types.Named); ok {
			if star != "" {
				return "(*" + n.Obj().Name() + ")." + fn.Name()
			}
			return n.Obj().Name() + "." + fn.Name()
		}
	}
	return fn.Name()
}

func (e *Engine) resolveType(text string) (types.Type, error) {
	text = strings.TrimSpace(text)
	if t, ok := e.typeMem[text]; ok {
		return t, nil
	}
	switch text {
	case "Time":
		text = "time.Time"
	}
	if text == "time.Time" {
		for _, imp := range e.tpkg.Imports() {
			if imp.Path() == "time" {
				if obj := imp.Scope().Lookup("Time"); obj != nil {
					e.typeMem[text] = obj.Type()
					e.typeMem["Time"] = obj.Type()
					return obj.Type(), nil
				}
			}
		}
	}
	tv, err := types.Eval(e.fset, e.tpkg, token.NoPos, text)
	if err != nil {
		// time may not be visible at NoPos scope for some files; try known imports
		return nil, fmt.Errorf("cannot resolve type %q: %v", text, err)
	}
	if !tv.IsType() {
		return nil, fmt.Errorf("%q is not a type", text)
	}
	e.typeMem[text] = tv.Type
	return tv.Type, nil
}

// ---------------------------------------------------------------------------
// Sorts

func isTimeType(t types.Type) bool {
	if n, ok := t.(*types.Named); ok {
		return n.Obj().Pkg() != nil && n.Obj().Pkg().Path() == "time" && (n.Obj().Name() == "Time" || n.Obj().Name() == "Duration")
	}
	return false
}

func isErrorType(t types.Type) bool {
	return types.Identical(t, types.Universe.Lookup("error").Type())
}

func isByteSlice(t types.Type) bool {
	if s, ok := t.Underlying().(*types.Slice); ok {
		if b, ok := s.Elem().Underlying().(*types.Basic); ok {
			return b.Kind() == types.Uint8
		}
	}
	return false
}

// typeKey is a compact, SMT-safe name for a type.
func typeKey(t types.Type) string {
	s := types.TypeString(t, func(p *types.Package) string { return "" })
	r := strings.NewReplacer("*", "P", "[]", "L", "[", "_", "]", "_", "{", "", "}", "", " ", "", ".", "_", "/", "_", "(", "", ")", "", ",", "_", ";", "_", "-", "_")
	return r.Replace(s)
}

func (c *Enc) sortOf(t types.Type) Sort {
	if isTimeType(t) {
		return SInt
	}
	if isErrorType(t) {
		return SInt
	}
	switch u := t.Underlying().(type) {
	case *types.Basic:
		switch {
		case u.Info()&types.IsBoolean != 0:
			return SBool
		case u.Info()&types.IsInteger != 0:
			return SInt
		case u.Info()&types.IsString != 0:
			return SInt
		case u.Kind() == types.UntypedNil || u.Kind() == types.UnsafePointer:
			return SInt
		case u.Info()&types.IsFloat != 0:
			return SInt // floats are not interpreted; treated as opaque ints
		}
	case *types.Pointer, *types.Map, *types.Signature, *types.Chan:
		return SInt
	case *types.Slice:
		return SSlice
	case *types.Interface:
		return SAny
	case *types.Struct:
		if u.NumFields() == 0 {
			return SUnit
		}
		return c.structSort(t, u)
	case *types.Array:
		return SInt // only used behind pointers (backing arrays)
	case *types.Tuple:
		return "Tuple"
	}
	panic(fmt.Sprintf("sortOf: unsupported type %s", t))
}

type structInfo struct {
	sort   Sort
	name   string
	fields []structField
	typ    types.Type
}
type structField struct {
	name string
	typ  types.Type
	sort Sort
}

func structName(t types.Type) string {
	if n, ok := t.(*types.Named); ok {
		if n.Obj().Pkg() != nil && n.Obj().Pkg().Name() != "ergo" {
			return n.Obj().Pkg().Name() + "_" + n.Obj().Name()
		}
		return n.Obj().Name()
	}
	return "anon_" + typeKey(t)
}

func (c *Enc) structSort(t types.Type, u *types.Struct) Sort {
	if os.Getenv("EVDEBUG_STRUCT") != "" && foreignNamed(t) {
		panic("foreign struct " + t.String() + "\n" + string(debug.Stack()))
	}
	name := structName(t)
	if si, ok := c.structs[name]; ok {
		return si.sort
	}
	si := &structInfo{sort: Sort("S_" + name), name: name, typ: t}
	c.structs[name] = si
	c.structOrder = append(c.structOrder, name)
	for i := 0; i < u.NumFields(); i++ {
		f := u.Field(i)
		si.fields = append(si.fields, structField{f.Name(), f.Type(), c.sortOf(f.Type())})
	}
	return si.sort
}

func (c *Enc) structInfoOf(t types.Type) *structInfo {
	u, ok := t.Underlying().(*types.Struct)
	if !ok {
		panic(fmt.Sprintf("not a struct: %s", t))
	}
	if u.NumFields() == 0 {
		return &structInfo{sort: SUnit, name: "Unit"}
	}
	c.structSort(t, u)
	return c.structs[structName(t)]
}

func (c *Enc) zero(t types.Type) Term {
	s := c.sortOf(t)
	switch s {
	case SBool:
		return False
	case SInt:
		return IntLit(0)
	case SSlice:
		return Term{"(mk-slice 0 0 0 0)", SSlice}
	case SAny:
		return Term{"any_nil", SAny}
	case SUnit:
		return Term{"unit", SUnit}
	}
	si := c.structInfoOf(t)
	parts := []Term{}
	for _, f := range si.fields {
		parts = append(parts, c.zero(f.typ))
	}
	return Term{app("mk_"+string(si.sort), parts...), si.sort}
}

// box constructor for interface values
func (c *Enc) boxCtor(t types.Type) string {
	key := typeKey(t)
	if _, ok := c.boxes[key]; !ok {
		c.boxes[key] = c.sortOf(t)
		c.boxOrder = append(c.boxOrder, key)
		if c.boxTypes == nil {
			c.boxTypes = map[string]types.Type{}
		}
		c.boxTypes[key] = t
	}
	return "box_" + key
}

// ---------------------------------------------------------------------------
// Enc: one verification context (one top-level function, many obligations)

type Obligation struct {
	Name     string
	Kind     string // ensures | requires | invariant-entry | invariant-preserved | step | safe | frame | lemma | decreases | cover
	Guard    Term
	Goal     Term
	NAsserts int // background prefix
	NDecls   int
	Func     string
	Text     string // contract text or description
	Values   []string
	Result   *SolverResult
	Finding  string
	Blk      *ssa.BasicBlock
	Label    string   // clause label (contract clauses only)
	Uses     []string // labels of the clauses its proof relies on
}

type Enc struct {
	topFrame    *Frame
	closedSeen  map[string]bool
	eng         *Engine
	top         *ssa.Function
	decls       []string
	declared    map[string]bool
	asserts     []Term
	obls        []*Obligation
	n           int
	structs     map[string]*structInfo
	structOrder []string
	boxes       map[string]Sort
	boxOrder    []string
	lits        map[string]string // literal -> symbol
	litOrder    []string
	heapSorts   map[string]Sort
	heapInit    map[string]Term
	trusted     map[string]string
	inlined     map[string]bool
	callees     map[string]bool
	notes       []string
	safeCount   map[string]int
	ufuns       map[string]bool
	cards       map[string]bool
	errs        []string
	modelVars   []string
	frameDepth  int
	callSeq     map[string]int
	sortSeq     int
	sortTotal   []sortObl
	initDone    bool
	allocLog    []Term
	elemsSeen   map[string]bool
	assertBlk   []*ssa.BasicBlock
	assertTag   []string // label of the contract clause a quantified assumption comes from
	assertHeavy []bool   // the assumption binds two or more variables in one quantifier
	curBlk      *ssa.BasicBlock
	relMemo     map[*ssa.BasicBlock]map[*ssa.BasicBlock]bool
	relMu       sync.Mutex
	topAtRefs   map[string][]Term
	jsonSeen    map[string]bool
	wsMemo      map[*ssa.Function]map[string]bool
	boxTypes    map[string]types.Type
}

func newEnc(eng *Engine, top *ssa.Function) *Enc {
	c := &Enc{eng: eng, top: top, declared: map[string]bool{}, structs: map[string]*structInfo{}, boxes: map[string]Sort{},
		lits: map[string]string{}, heapSorts: map[string]Sort{}, heapInit: map[string]Term{}, trusted: map[string]string{},
		inlined: map[string]bool{}, callees: map[string]bool{}, safeCount: map[string]int{}, callSeq: map[string]int{}, ufuns: map[string]bool{}, cards: map[string]bool{}}
	return c
}

func (c *Enc) fresh(base string, sort Sort) Term {
	c.n++
	name := fmt.Sprintf("%s!%d", base, c.n)
	c.declare(name, sort)
	return Term{name, sort}
}

func (c *Enc) declare(name string, sort Sort) {
	if c.declared[name] {
		return
	}
	c.declared[name] = true
	c.decls = append(c.decls, fmt.Sprintf("(declare-const %s %s)", name, sort))
}

func (c *Enc) declareFun(name string, args []Sort, res Sort) {
	if c.declared[name] {
		return
	}
	c.declared[name] = true
	as := make([]string, len(args))
	for i, a := range args {
		as[i] = string(a)
	}
	c.decls = append(c.decls, fmt.Sprintf("(declare-fun %s (%s) %s)", name, strings.Join(as, " "), res))
}

func (c *Enc) assert(t Term) {
	if t.S == "true" {
		return
	}
	c.asserts = append(c.asserts, t)
	c.assertBlk = append(c.assertBlk, c.curBlk)
	c.assertTag = append(c.assertTag, "")
	c.assertHeavy = append(c.assertHeavy, false)
}

// pairwiseRe: a quantifier binding two or more variables at once. Such assumptions (pairwise distinctness,
// injectivity) instantiate quadratically in the number of ground terms and dominate solver time.
var pairwiseRe = regexp.MustCompile(`\((?:forall|exists) \(\([^\s()]+ [^\s()]+\) \(`)

// assumeClause assumes a contract clause conjunct by conjunct. Conjuncts with a pairwise quantifier are tagged
// with the clause label: the weakened query variants keep them only for obligations of the same label (the
// clause's own preservation, or a postcondition named alike); the full query always has them.
func (c *Enc) assumeClause(guard, g Term, label string) {
	for _, p := range splitAnd(g.S) {
		t := Term{p, SBool}
		if guard.S != "true" {
			t = Implies(guard, t)
		}
		if t.S == "true" {
			continue
		}
		c.assert(t)
		if hasQuant(p) {
			c.assertTag[len(c.assertTag)-1] = label
			c.assertHeavy[len(c.assertHeavy)-1] = pairwiseRe.MatchString(p)
		}
	}
}

func splitAnd(s string) []string {
	head, args, ok := splitTop(s)
	if ok && head == "and" {
		var out []string
		for _, a := range args {
			out = append(out, splitAnd(a)...)
		}
		return out
	}
	return []string{s}
}

// relevantBlocks: blocks of the top-level function from which control can reach blk along
// forward edges (blk itself included). blk == nil means "function exit".
func (c *Enc) relevantBlocks(blk *ssa.BasicBlock) map[*ssa.BasicBlock]bool {
	c.relMu.Lock()
	defer c.relMu.Unlock()
	if c.relMemo == nil {
		c.relMemo = map[*ssa.BasicBlock]map[*ssa.BasicBlock]bool{}
	}
	if m, ok := c.relMemo[blk]; ok {
		return m
	}
	m := map[*ssa.BasicBlock]bool{}
	var stack []*ssa.BasicBlock
	if blk == nil {
		for _, b := range c.top.Blocks {
			if len(b.Instrs) > 0 {
				if _, ok := b.Instrs[len(b.Instrs)-1].(*ssa.Return); ok {
					stack = append(stack, b)
				}
			}
		}
	} else {
		stack = append(stack, blk)
	}
	for len(stack) > 0 {
		b := stack[len(stack)-1]
		stack = stack[:len(stack)-1]
		if m[b] {
			continue
		}
		m[b] = true
		for _, p := range b.Preds {
			if !isBackEdge(p, b) {
				stack = append(stack, p)
			}
		}
	}
	c.relMemo[blk] = m
	return m
}

// localLoop is the innermost loop an obligation belongs to: the loop containing its block; an invariant's
// entry obligation belongs to the code before the loop, i.e. to the enclosing loop (if any).
func (c *Enc) localLoop(o *Obligation) *LoopInfo {
	if c.topFrame == nil || o.Blk == nil || os.Getenv("VERIF_NO_LOOPLOCAL") != "" {
		return nil
	}
	entry := strings.Contains(o.Name, "/entry[")
	var best *LoopInfo
	for h, li := range c.topFrame.loops {
		if !li.blocks[o.Blk] {
			continue
		}
		if entry && h == o.Blk {
			continue
		}
		if best == nil || len(li.blocks) < len(best.blocks) {
			best = li
		}
	}
	if debugLoops && best != nil {
		fmt.Fprintf(os.Stderr, "localLoop %s blk=%d -> loop%d header=%d nblocks=%d\n", o.Name, o.Blk.Index, best.ordinal, best.header.Index, len(best.blocks))
	}
	return best
}

func (c *Enc) assume(guard, t Term) { c.assert(Implies(guard, t)) }

func (c *Enc) oblige(name, kind string, guard, goal Term, text string) *Obligation {
	o := &Obligation{Name: name, Kind: kind, Guard: guard, Goal: goal, NAsserts: len(c.asserts), NDecls: len(c.decls), Func: funcKey(c.top), Text: text, Blk: c.curBlk}
	c.obls = append(c.obls, o)
	// later code may assume what control flow has passed (assert-then-assume); clauses that sit at the
	// same program point (ensures, invariants) are checked independently of each other
	if kind == "safe" || kind == "requires" {
		c.assert(Implies(guard, goal))
	}
	return o
}

// obligeClause: an obligation generated from a labelled contract clause.
func (c *Enc) obligeClause(cl *Clause, name, kind string, guard, goal Term, text string) *Obligation {
	o := c.oblige(name, kind, guard, goal, text)
	o.Label, o.Uses = cl.Label, cl.Uses
	return o
}

func (c *Enc) safe(kind string, guard, goal Term, text string) {
	if goal.S == "true" {
		return
	}
	c.safeCount[kind]++
	name := fmt.Sprintf("%s/safe/%s#%d", funcKey(c.top), kind, c.safeCount[kind])
	c.oblige(name, "safe", guard, goal, text)
}

func (c *Enc) errorf(format string, args ...interface{}) {
	c.errs = append(c.errs, fmt.Sprintf(format, args...))
}

// string literal -> symbol
func (c *Enc) strLit(s string) Term {
	if s == "" {
		return IntLit(0)
	}
	if sym, ok := c.lits[s]; ok {
		return Term{sym, SInt}
	}
	sym := fmt.Sprintf("lit_%d_%s", len(c.lits), sanitize(s))
	if len(sym) > 40 {
		sym = sym[:40]
	}
	sym = "|" + sym + "|"
	c.lits[s] = sym
	c.litOrder = append(c.litOrder, s)
	c.declare(sym, SInt)
	return Term{sym, SInt}
}

// ---------------------------------------------------------------------------
// Heap variables

type State struct {
	h   map[string]Term
	pre bool // pre-initialiser world: missing entries resolve to X!pre instead of X!0
}

func (s *State) clone() *State {
	n := &State{h: make(map[string]Term, len(s.h)), pre: s.pre}
	for k, v := range s.h {
		n.h[k] = v
	}
	return n
}

func (c *Enc) heapVar(name string, sort Sort) {
	if _, ok := c.heapSorts[name]; ok {
		return
	}
	c.heapSorts[name] = sort
	heapRegistry[name] = sort
	init := Term{name + "!0", sort}
	c.declare(init.S, sort)
	c.heapInit[name] = init
	if strings.HasPrefix(name, "MD_") {
		// nil map has an empty domain
		c.assert(Eq(Term{app("select", init, IntLit(0)), ""}, c.emptySetOfDom(sort)))
	}
	if name == "nextRef" {
		c.assert(Le(IntLit(1), init))
	}
}

func (c *Enc) emptySetOfDom(domHeapSort Sort) Term {
	// domHeapSort = (Array Int (Array K Bool)) -> ((as const (Array K Bool)) false)
	s := string(domHeapSort)
	inner := strings.TrimSuffix(strings.TrimPrefix(s, "(Array Int "), ")")
	return Term{fmt.Sprintf("((as const %s) false)", inner), Sort(inner)}
}

func (c *Enc) get(st *State, name string) Term {
	if t, ok := st.h[name]; ok {
		return t
	}
	init, ok := c.heapInit[name]
	if !ok {
		panic("heap var not registered: " + name)
	}
	if st.pre {
		p := Term{name + "!pre", init.Sort}
		if !c.declared[p.S] {
			c.declare(p.S, p.Sort)
			if name == "nextRef" {
				c.assert(Le(IntLit(1), p))
			}
		}
		return p
	}
	return init
}

func (c *Enc) set(st *State, name string, t Term) {
	if !strings.Contains(t.S, " ") || len(t.S) < 40 {
		st.h[name] = t
		return
	}
	// name the new version to keep terms small
	sym := c.fresh(name, c.heapSorts[name])
	c.assert(Eq(sym, t))
	st.h[name] = sym
}

// havoc gives a heap variable a fresh unconstrained version.
func (c *Enc) havoc(st *State, name string) Term {
	sym := c.fresh(name, c.heapSorts[name])
	if strings.HasPrefix(name, "MD_") {
		c.assert(Eq(Term{app("select", sym, IntLit(0)), ""}, c.emptySetOfDom(c.heapSorts[name])))
	}
	st.h[name] = sym
	return sym
}

// names of heap variables
// allocFormula: every reference inside value v of Go type t lies in [0, n0).
func (c *Enc) allocFormula(t types.Type, v Term, n0 Term) Term {
	if isTimeType(t) {
		return True
	}
	switch u := t.Underlying().(type) {
	case *types.Pointer, *types.Map:
		return And(Le(IntLit(0), v), Lt(v, n0))
	case *types.Slice:
		return And(Le(IntLit(0), slArr(v)), Lt(slArr(v), n0), Le(IntLit(0), slOff(v)), Le(IntLit(0), slLen(v)), Le(slLen(v), slCap(v)),
			Implies(Eq(slArr(v), IntLit(0)), Eq(slCap(v), IntLit(0))))
	case *types.Struct:
		if u.NumFields() == 0 {
			return True
		}
		si := c.structInfoOf(t)
		parts := []Term{}
		for _, f := range si.fields {
			if g := c.allocFormula(f.typ, Term{app(string(si.sort)+"_"+f.name, v), f.sort}, n0); g.S != True.S {
				parts = append(parts, g)
			}
		}
		if len(parts) == 0 {
			return True
		}
		return And(parts...)
	}
	return True
}

// heapClosed (option heap-closed): every reference stored in the entry heap was allocated before entry.
// This is a property of the memory model (a reference can only be stored after it was allocated), stated
// for the entry state of each heap the function touches.
func (c *Enc) heapClosed(name string, elemT types.Type, depth int, keySort Sort) {
	if !c.option("heap-closed") {
		return
	}
	if c.closedSeen == nil {
		c.closedSeen = map[string]bool{}
	}
	if c.closedSeen[name] {
		return
	}
	c.closedSeen[name] = true
	c.heapVar("nextRef", SInt)
	n0 := c.heapInit["nextRef"]
	init := c.heapInit[name]
	var sel, binders string
	switch depth {
	case 1:
		sel = app("select", init, Term{"hc!r", SInt})
		binders = "((hc!r Int))"
	case 2:
		ks := string(keySort)
		sel = fmt.Sprintf("(select (select %s hc!r) hc!k)", init.S)
		binders = fmt.Sprintf("((hc!r Int) (hc!k %s))", ks)
	}
	g := c.allocFormula(elemT, Term{sel, c.sortOf(elemT)}, n0)
	if g.S == True.S {
		return
	}
	c.assert(Term{fmt.Sprintf("(forall %s (! %s :pattern (%s)))", binders, g.S, sel), SBool})
}

func (c *Enc) fieldHeap(structT types.Type, field int) (string, Sort, types.Type) {
	si := c.structInfoOf(structT)
	f := si.fields[field]
	name := "F_" + si.name + "_" + f.name
	c.heapVar(name, ArraySort(SInt, f.sort))
	c.heapClosed(name, f.typ, 1, SInt)
	return name, f.sort, f.typ
}

func (c *Enc) mapHeaps(mapT types.Type) (dom, val string, ks, vs Sort) {
	m := mapT.Underlying().(*types.Map)
	key := typeKey(mapT.Underlying())
	ks = c.sortOf(m.Key())
	vs = c.sortOf(m.Elem())
	dom = "MD_" + key
	val = "MV_" + key
	c.heapVar(dom, ArraySort(SInt, ArraySort(ks, SBool)))
	c.heapVar(val, ArraySort(SInt, ArraySort(ks, vs)))
	c.heapClosed(val, m.Elem(), 2, ks)
	return
}

func (c *Enc) elemHeap(elemT types.Type) (string, Sort) {
	es := c.sortOf(elemT)
	name := "EL_" + typeKey(elemT)
	if isTimeType(elemT) {
		name = "EL_time"
	}
	if b, ok := elemT.(*types.Basic); ok {
		// byte and uint8 (rune and int32) are the same type
		switch b.Kind() {
		case types.Uint8:
			name = "EL_uint8"
		case types.Int32:
			name = "EL_int32"
		}
	}
	c.heapVar(name, ArraySort(SInt, ArraySort(SInt, es)))
	c.heapClosed(name, elemT, 2, SInt)
	return name, es
}

func (c *Enc) boxHeap(t types.Type) (string, Sort) {
	s := c.sortOf(t)
	name := "BX_" + typeKey(t)
	c.heapVar(name, ArraySort(SInt, s))
	c.heapClosed(name, t, 1, SInt)
	return name, s
}

func (c *Enc) cellVar(name string, t types.Type) string {
	c.heapVar(name, c.sortOf(t))
	return name
}

func (c *Enc) nextRef(st *State) Term {
	c.heapVar("nextRef", SInt)
	return c.get(st, "nextRef")
}

// allocRef returns a fresh reference and bumps nextRef.
func (c *Enc) allocRef(st *State) Term {
	r := c.nextRef(st)
	if c.allocLog != nil {
		c.allocLog = append(c.allocLog, r)
	}
	nr := c.fresh("nextRef", SInt)
	c.assert(Eq(nr, Add(r, IntLit(1))))
	st.h["nextRef"] = nr
	return r
}

func (c *Enc) card(set Term) Term {
	fn := "card_" + sanitize(string(set.Sort))
	if !c.cards[fn] {
		c.cards[fn] = true
		c.declareFun(fn, []Sort{set.Sort}, SInt)
	}
	t := Term{app(fn, set), SInt}
	empty := Term{fmt.Sprintf("((as const %s) false)", set.Sort), set.Sort}
	c.assert(And(Le(IntLit(0), t), Eq(Eq(t, IntLit(0)), Eq(set, empty))))
	return t
}

// option reports whether the top-level function's contract enables an optional axiom group.
func (c *Enc) option(name string) bool {
	fc := c.eng.cf.Funcs[funcKey(c.top)]
	return fc != nil && fc.Options[name]
}

// elemsOf(inner, off, len) is the set of elements of a slice window; it is an uninterpreted
// function whose meaning is given by axioms emitted once per distinct application.
func (c *Enc) elemsOf(inner, off, ln Term, es Sort) Term {
	fn := "elemsOf_" + sanitize(string(es))
	setSort := ArraySort(es, SBool)
	c.declareFun(fn, []Sort{ArraySort(SInt, es), SInt, SInt}, setSort)
	t := Term{app(fn, inner, off, ln), setSort}
	if c.elemsSeen == nil {
		c.elemsSeen = map[string]bool{}
	}
	if c.elemsSeen[t.S] || strings.Contains(t.S, "!q") {
		return t
	}
	c.elemsSeen[t.S] = true
	empty := fmt.Sprintf("((as const %s) false)", setSort)
	c.assert(Term{fmt.Sprintf("(=> (<= %s 0) (= %s %s))", ln.S, t.S, empty), SBool})
	// unfolding of a window that is written as n+1: elemsOf(a, off, n+1) = elemsOf(a, off, n) ∪ {a[off+n]}
	if strings.HasPrefix(ln.S, "(+ ") && strings.HasSuffix(ln.S, " 1)") && !strings.Contains(inner.S, "(store ") {
		x := Term{strings.TrimSuffix(strings.TrimPrefix(ln.S, "(+ "), " 1)"), SInt}
		if balancedSingle(x.S) {
			prev := c.elemsOf(inner, off, x, es)
			last := Select(inner, pos(off, x), es)
			c.assert(Implies(Le(IntLit(0), x), Eq(t, Store(prev, last, True))))
		}
	}
	if !c.option("elems-index") {
		return t
	}
	c.n++
	pv := fmt.Sprintf("ei!%d", c.n)
	hi := Add(off, ln)
	c.assert(Term{fmt.Sprintf("(forall ((%s Int)) (! (=> (and (<= %s %s) (< %s %s)) (select %s (select %s %s))) :pattern ((select %s %s))))",
		pv, off.S, pv, pv, hi.S, t.S, inner.S, pv, inner.S, pv), SBool})
	idx := fmt.Sprintf("idxOf!%d", c.n)
	c.declareFun(idx, []Sort{es}, SInt)
	xv := fmt.Sprintf("ex!%d", c.n)
	c.assert(Term{fmt.Sprintf("(forall ((%s %s)) (! (=> (select %s %s) (and (<= %s (%s %s)) (< (%s %s) %s) (= (select %s (%s %s)) %s))) :pattern ((select %s %s))))",
		xv, es, t.S, xv, off.S, idx, xv, idx, xv, hi.S, inner.S, idx, xv, xv, t.S, xv), SBool})
	return t
}

// ---------------------------------------------------------------------------
// constants

func (c *Enc) constTerm(k *ssa.Const) Term {
	t := k.Type()
	if k.Value == nil {
		return c.zero(t)
	}
	switch k.Value.Kind() {
	case constant.Bool:
		if constant.BoolVal(k.Value) {
			return True
		}
		return False
	case constant.String:
		return c.strLit(constant.StringVal(k.Value))
	case constant.Int:
		n, ok := constant.Int64Val(k.Value)
		if !ok {
			u, _ := constant.Uint64Val(k.Value)
			return Term{fmt.Sprint(u), SInt}
		}
		return IntLit(n)
	}
	c.errorf("unsupported constant %s", k)
	return IntLit(0)
}

func sortedKeysOf(m map[string]bool) []string {
	out := make([]string, 0, len(m))
	for k := range m {
		out = append(out, k)
	}
	sort.Strings(out)
	return out
}

// ---------------------------------------------------------------------------
// Query text

func (c *Enc) prelude() string {
	var b strings.Builder
	b.WriteString("(set-option :produce-models true)\n(set-logic ALL)\n")
	// datatypes
	b.WriteString("(declare-datatypes ((Slice 0) (Unit 0)) (((mk-slice (sl-arr Int) (sl-off Int) (sl-len Int) (sl-cap Int))) ((unit))))\n")
	b.WriteString("(define-fun nilslice () Slice (mk-slice 0 0 0 0))\n")
	// struct datatypes in dependency order: fields of struct sort come first (structOrder is discovery order: inner sorts are discovered during outer construction, i.e. registered after outer).
	emitted := map[string]bool{}
	var emit func(name string)
	emit = func(name string) {
		if emitted[name] {
			return
		}
		emitted[name] = true
		si := c.structs[name]
		for _, f := range si.fields {
			if strings.HasPrefix(string(f.sort), "S_") {
				emit(strings.TrimPrefix(string(f.sort), "S_"))
			}
		}
		var fs []string
		for _, f := range si.fields {
			fs = append(fs, fmt.Sprintf("(%s_%s %s)", si.sort, f.name, f.sort))
		}
		fmt.Fprintf(&b, "(declare-datatypes ((%s 0)) (((mk_%s %s))))\n", si.sort, si.sort, strings.Join(fs, " "))
	}
	for _, name := range c.structOrder {
		emit(name)
	}
	// Any
	var ctors []string
	ctors = append(ctors, "(any_nil)")
	for _, key := range c.boxOrder {
		ctors = append(ctors, fmt.Sprintf("(box_%s (unbox_%s %s))", key, key, c.boxes[key]))
	}
	fmt.Fprintf(&b, "(declare-datatypes ((Any 0)) ((%s)))\n", strings.Join(ctors, " "))
	return b.String()
}

func (c *Enc) literalAxioms() string {
	if len(c.litOrder) == 0 {
		return ""
	}
	lits := append([]string(nil), c.litOrder...)
	sort.Strings(lits) // byte-wise lexicographic, as Go compares strings
	var b strings.Builder
	b.WriteString("(assert (< 0")
	for _, l := range lits {
		b.WriteString(" " + c.lits[l])
	}
	b.WriteString("))\n")
	for _, l := range lits {
		fmt.Fprintf(&b, "(assert (= (strLen %s) %d))\n", c.lits[l], len(l))
	}
	return b.String()
}

// Query modes: which assumptions accompany an obligation. Every mode is a subset of the assumptions of
// modeFull, so an `unsat` answer in any mode is a proof; only modeFull answers `sat` meaningfully.
const (
	modeFull  = iota // everything on the paths to the obligation (CFG relevance only)
	modeLocal        // + loop-local: inside a loop, quantified facts from outside the loop are dropped
	modePost         // + after a loop, quantified facts from before that loop are dropped
	modeSelf         // + of the quantified contract clauses only those the obligation's clause names (itself and its uses)
)

// idx(o, i) = o + i: see pos.
const idxPrelude = "(declare-fun idx (Int Int) Int)\n(assert (forall ((io Int) (ii Int)) (! (= (idx io ii) (+ io ii)) :pattern ((idx io ii)))))\n"

// relies: the obligation's clause is label or lists it among its uses.
func (o *Obligation) relies(label string) bool {
	if o.Label == label || (o.Label == "" && strings.Contains(o.Name, "["+label+"]")) {
		return true
	}
	for _, u := range o.Uses {
		if u == label {
			return true
		}
	}
	return false
}

func (c *Enc) queryFor(o *Obligation) string { return c.queryForMode(o, modeFull) }

func (c *Enc) queryForMode(o *Obligation, mode int) string {
	var b strings.Builder
	b.WriteString(c.prelude())
	b.WriteString("(declare-fun strLen (Int) Int)\n(assert (= (strLen 0) 0))\n")
	b.WriteString(idxPrelude)
	for _, d := range c.decls {
		b.WriteString(d)
		b.WriteString("\n")
	}
	b.WriteString(c.literalAxioms())
	rel := c.relevantBlocks(o.Blk)
	var local *LoopInfo
	var before map[*ssa.BasicBlock]bool
	if mode >= modeLocal {
		local = c.localLoop(o)
	}
	if mode >= modePost {
		before = c.beforeLastLoop(o)
	}
	for i, a := range c.asserts[:o.NAsserts] {
		blk := c.assertBlk[i]
		if blk != nil && !rel[blk] {
			continue
		}
		// loop-local reasoning: an obligation inside a loop is proved from the loop's invariants (assumed at the
		// header) and the loop body; quantified facts established before the loop are not carried in unless an
		// invariant restates them.
		if local != nil && blk != nil && !local.blocks[blk] && hasQuant(a.S) {
			if debugLoops && strings.Contains(a.S, "at_b18!") {
				fmt.Fprintf(os.Stderr, "drop(local) blk=%d %s\n", blk.Index, a.S[:60])
			}
			continue
		}
		if before != nil && blk != nil && before[blk] && hasQuant(a.S) {
			continue
		}
		if mode >= modeLocal && c.assertHeavy[i] && !o.relies(c.assertTag[i]) {
			continue
		}
		if mode >= modeSelf && c.assertTag[i] != "" && !o.relies(c.assertTag[i]) {
			continue
		}
		b.WriteString("(assert ")
		b.WriteString(a.S)
		b.WriteString(")\n")
	}
	b.WriteString("(assert ")
	b.WriteString(o.Guard.S)
	b.WriteString(")\n(assert (not ")
	b.WriteString(o.Goal.S)
	b.WriteString("))\n")
	return b.String()
}

// beforeLastLoop: the blocks that precede the last loop the obligation's block comes after (nil if none).
func (c *Enc) beforeLastLoop(o *Obligation) map[*ssa.BasicBlock]bool {
	if c.topFrame == nil || o.Blk == nil {
		return nil
	}
	entry := strings.Contains(o.Name, "/entry[")
	var best *LoopInfo
	for h, li := range c.topFrame.loops {
		if li.blocks[o.Blk] && !(entry && h == o.Blk) {
			continue // inside this loop, not after it
		}
		if entry && h == o.Blk {
			continue
		}
		if !h.Dominates(o.Blk) {
			continue
		}
		if best == nil || best.header.Dominates(h) {
			best = li
		}
	}
	if best == nil {
		return nil
	}
	m := map[*ssa.BasicBlock]bool{}
	for b := range c.relevantBlocks(best.header) {
		if b != best.header {
			m[b] = true
		}
	}
	return m
}

func init() {
	if os.Getenv("EVDEBUG_LOOPS") != "" {
		debugLoops = true
	}
}

var debugLoops bool
