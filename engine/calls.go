package main

import (
	"fmt"
	"go/types"
	"strings"

	"golang.org/x/tools/go/ssa"
)

// ---------------------------------------------------------------------------
// write sets of functions (transitive, syntactic)

func (c *Enc) writeSet(fn *ssa.Function) map[string]bool {
	if c.wsMemo == nil {
		c.wsMemo = map[*ssa.Function]map[string]bool{}
	}
	if ws, ok := c.wsMemo[fn]; ok {
		return ws
	}
	ws := map[string]bool{}
	c.wsMemo[fn] = ws // recursion guard (partial result for recursive calls)
	if len(fn.Blocks) == 0 {
		return ws
	}
	tmp := &Frame{c: c, fn: fn, id: "ws_", vals: map[ssa.Value]Term{}, tuples: map[ssa.Value][]Term{}, places: map[ssa.Value]*Place{},
		ranges: map[ssa.Value]*rangeRec{}, fvCell: map[*ssa.FreeVar]string{}, closures: map[ssa.Value]*ssa.MakeClosure{}}
	all := map[string]bool{}
	for _, b := range fn.Blocks {
		for _, ins := range b.Instrs {
			if mc, ok := ins.(*ssa.MakeClosure); ok {
				tmp.closures[mc] = mc
			}
		}
	}
	for _, b := range fn.Blocks {
		for _, ins := range b.Instrs {
			tmp.instrWrites(ins, all)
		}
	}
	for w := range all {
		if strings.HasPrefix(w, "L_") || strings.HasPrefix(w, "V_") {
			continue
		}
		ws[w] = true
	}
	// what the function's own contract declares (ghost state is only ever written through contracts)
	if fc := c.eng.cf.Funcs[funcKey(fn)]; fc != nil {
		for _, m := range fc.Modifies {
			for _, h := range c.modifiesHeaps(m.Pat) {
				if strings.HasPrefix(h, "CELL:") {
					name := strings.TrimPrefix(h, "CELL:")
					for _, fv := range fn.FreeVars {
						if fv.Name() == name {
							ws["FV_"+sanitize(funcKey(fn))+"_"+fv.Name()] = true
						}
					}
					continue
				}
				ws[h] = true
			}
		}
	}
	return ws
}

// heapRegistry remembers how to register heap vars by name across Encs.
var heapRegistry = map[string]Sort{}

func (c *Enc) ensureHeapRegistered(name string, fn *ssa.Function) {
	if _, ok := c.heapSorts[name]; ok {
		return
	}
	if s, ok := heapRegistry[name]; ok {
		c.heapVar(name, s)
	}
}

func (fr *Frame) callWrites(cc *ssa.CallCommon, ws map[string]bool) {
	c := fr.c
	add := func(fn *ssa.Function, bindings []ssa.Value) {
		for w := range c.writeSet(fn) {
			if strings.HasPrefix(w, "FV_") {
				// translate free variable cells of a closure to the caller's cells
				translated := false
				for i, fv := range fn.FreeVars {
					name := "FV_" + sanitize(funcKey(fn)) + "_" + fv.Name()
					if name == w && i < len(bindings) {
						fr.addrWrites(bindings[i], ws)
						translated = true
					}
				}
				if !translated {
					ws[w] = true
				}
				continue
			}
			ws[w] = true
		}
	}
	if b, ok := cc.Value.(*ssa.Builtin); ok {
		switch b.Name() {
		case "append":
			if sl, ok := cc.Args[0].Type().Underlying().(*types.Slice); ok {
				h, _ := c.elemHeap(sl.Elem())
				ws[h] = true
				ws["nextRef"] = true
				c.heapVar("nextRef", SInt)
			}
		case "delete":
			d, _, _, _ := c.mapHeaps(cc.Args[0].Type())
			ws[d] = true
		case "copy":
			if sl, ok := cc.Args[0].Type().Underlying().(*types.Slice); ok {
				h, _ := c.elemHeap(sl.Elem())
				ws[h] = true
			}
		}
		return
	}
	// closures passed as arguments may be called by the callee
	for _, a := range cc.Args {
		if mc, ok := a.(*ssa.MakeClosure); ok {
			add(mc.Fn.(*ssa.Function), mc.Bindings)
		}
	}
	if mc, ok := cc.Value.(*ssa.MakeClosure); ok {
		add(mc.Fn.(*ssa.Function), mc.Bindings)
		return
	}
	callee := cc.StaticCallee()
	if callee == nil {
		return
	}
	if callee.Pkg == c.eng.pkg {
		add(callee, nil)
		return
	}
	if ex, ok := externs[externName(cc)]; ok && ex.writes != nil {
		ex.writes(fr, cc, ws)
		return
	}
	// external function with an ASSUMED contract in the contract file: its modifies clause is its write set
	if fc := c.eng.cf.Funcs[externName(cc)]; fc != nil {
		ws["nextRef"] = true
		c.heapVar("nextRef", SInt)
		for _, m := range fc.Modifies {
			for _, h := range c.modifiesHeaps(m.Pat) {
				if !strings.HasPrefix(h, "CELL:") {
					ws[h] = true
				}
			}
		}
	}
}

func externName(cc *ssa.CallCommon) string {
	if cc.IsInvoke() {
		return "invoke:" + cc.Method.Name()
	}
	if callee := cc.StaticCallee(); callee != nil {
		return callee.String()
	}
	return ""
}

// ---------------------------------------------------------------------------
// calls

func (fr *Frame) encodeCall(v *ssa.Call, cc *ssa.CallCommon, at Term, st *State) {
	c := fr.c
	if b, ok := cc.Value.(*ssa.Builtin); ok {
		fr.encodeBuiltin(v, b, cc, at, st)
		return
	}
	var args []Term
	argOK := true
	for _, a := range cc.Args {
		if _, isPtr := a.Type().Underlying().(*types.Pointer); isPtr {
			if _, sp := isStructPtr(a.Type()); !sp {
				if _, isPlace := fr.places[a]; isPlace {
					args = append(args, IntLit(0)) // placeholder; handled by out-param externs
					continue
				}
				if _, isG := a.(*ssa.Global); isG {
					args = append(args, IntLit(0))
					continue
				}
			}
		}
		args = append(args, fr.val(a))
	}
	_ = argOK
	if cc.IsInvoke() {
		fr.encodeExtern(v, cc, args, at, st)
		return
	}
	if mc, ok := cc.Value.(*ssa.MakeClosure); ok {
		fr.callRepo(v, mc.Fn.(*ssa.Function), mc.Bindings, cc, args, at, st)
		return
	}
	callee := cc.StaticCallee()
	if callee == nil {
		// call through a function value: parameter callbacks
		fr.encodeCallback(v, cc, args, at, st)
		return
	}
	if callee.Pkg == c.eng.pkg {
		fr.callRepo(v, callee, nil, cc, args, at, st)
		return
	}
	fr.encodeExtern(v, cc, args, at, st)
}

func (fr *Frame) callRepo(v *ssa.Call, callee *ssa.Function, bindings []ssa.Value, cc *ssa.CallCommon, args []Term, at Term, st *State) {
	res := fr.callRepoRes(callee, bindings, cc, args, at, st)
	if v != nil {
		fr.setResultsRaw(v, res)
	}
}

func (fr *Frame) callRepoRes(callee *ssa.Function, bindings []ssa.Value, cc *ssa.CallCommon, args []Term, at Term, st *State) []Term {
	c := fr.c
	key := funcKey(callee)
	fc := c.eng.cf.Funcs[key]
	if fc != nil && !fc.Inline && len(fc.clauses("callpre")) > 0 {
		return fr.applyHigherOrder(callee, fc, cc, args, at, st)
	}
	if fc != nil && !fc.Inline {
		return fr.applyContract(callee, fc, bindings, cc, args, at, st)
	}
	if fc == nil && !autoInlinable(callee) {
		c.errorf("%s: callee %s needs a contract (not a loop-free leaf helper)", funcKey(fr.fn), key)
		return fr.freshResults(callee)
	}
	if c.frameDepth > 12 {
		c.errorf("%s: inlining too deep at %s", funcKey(fr.fn), key)
		return fr.freshResults(callee)
	}
	c.inlined[key] = true
	return fr.inlineCall(callee, bindings, cc, args, at, st)
}

func autoInlinable(fn *ssa.Function) bool {
	if len(fn.Blocks) == 0 {
		return false
	}
	n := 0
	for _, b := range fn.Blocks {
		for _, p := range b.Preds {
			if b.Dominates(p) {
				return false
			}
		}
		for _, ins := range b.Instrs {
			if _, ok := ins.(*ssa.DebugRef); ok {
				continue
			}
			n++
			if call, ok := ins.(*ssa.Call); ok {
				if cal := call.Common().StaticCallee(); cal == fn {
					return false
				}
			}
		}
	}
	return n <= 60
}

func (fr *Frame) freshResults(callee *ssa.Function) []Term {
	var out []Term
	res := callee.Signature.Results()
	for i := 0; i < res.Len(); i++ {
		out = append(out, fr.c.fresh("res", fr.c.sortOf(res.At(i).Type())))
	}
	return out
}

func (fr *Frame) inlineCall(callee *ssa.Function, bindings []ssa.Value, cc *ssa.CallCommon, args []Term, at Term, st *State) []Term {
	c := fr.c
	nf := c.newFrame(callee, false)
	defer func() { c.frameDepth-- }()
	for i, p := range callee.Params {
		if i < len(cc.Args) {
			if pl, ok := fr.places[cc.Args[i]]; ok {
				if _, sp := isStructPtr(p.Type()); !sp {
					nf.places[p] = pl
					continue
				}
			}
		}
		nf.vals[p] = args[i]
	}
	for i, fv := range callee.FreeVars {
		if i < len(bindings) {
			nf.places[fv] = fr.place(bindings[i])
		}
	}
	// closures known in the caller remain known (passed as args)
	for i, p := range callee.Params {
		if i < len(cc.Args) {
			if mc, ok := cc.Args[i].(*ssa.MakeClosure); ok {
				nf.closures[p] = mc
				if nf.closureFrames == nil {
					nf.closureFrames = map[ssa.Value]*Frame{}
				}
				nf.closureFrames[p] = fr
			}
		}
	}
	nf.encodeBody(at, st.clone())
	var edges []*edge
	for _, r := range nf.rets {
		edges = append(edges, &edge{cond: r.guard, st: r.st})
	}
	_, merged := fr.merge(edges, "ret_"+sanitize(funcKey(callee)))
	st.h = merged.h
	nres := callee.Signature.Results().Len()
	out := make([]Term, nres)
	for i := 0; i < nres; i++ {
		if len(nf.rets) == 1 {
			out[i] = nf.rets[0].vals[i]
			continue
		}
		sym := c.fresh(nf.id+"ret", c.sortOf(callee.Signature.Results().At(i).Type()))
		for _, r := range nf.rets {
			c.assume(r.guard, Eq(sym, r.vals[i]))
		}
		out[i] = sym
	}
	return out
}

// resultNames returns the contract-visible names of fn's results.
func resultNames(fn *ssa.Function) [][]string {
	res := fn.Signature.Results()
	out := make([][]string, res.Len())
	for i := 0; i < res.Len(); i++ {
		names := []string{fmt.Sprintf("ret%d", i)}
		if res.Len() == 1 {
			names = append(names, "ret")
		}
		if n := res.At(i).Name(); n != "" && n != "_" {
			names = append(names, n)
		}
		if isErrorType(res.At(i).Type()) && i == res.Len()-1 {
			names = append(names, "err")
		}
		out[i] = names
	}
	return out
}

func (fr *Frame) applyContract(callee *ssa.Function, fc *FuncContract, bindings []ssa.Value, cc *ssa.CallCommon, args []Term, at Term, st *State) []Term {
	c := fr.c
	key := funcKey(callee)
	c.callees[key] = true
	if fc.Trusted != "" {
		c.trusted["ASSUMED contract of "+key] = fc.Trusted
	}
	vars := map[string]TV{}
	for i, p := range callee.Params {
		if i < len(args) {
			vars[p.Name()] = TV{args[i], p.Type()}
		}
	}
	// a parameter renamed since the contract was written keeps its contract name (see renames.go)
	if base, ok := c.eng.localsBase[key]; ok && callee.Pkg == c.eng.pkg {
		cur := functionLocals(callee)
		same := len(cur) == len(base)
		for i := 0; same && i < len(cur); i++ {
			same = cur[i].Type == base[i].Type
		}
		if same {
			for i, p := range callee.Params {
				if i < len(base) && base[i].Name != p.Name() {
					if v, ok := vars[p.Name()]; ok {
						vars[base[i].Name] = v
					}
				}
			}
		}
	}
	if callee.Pkg != c.eng.pkg && cc != nil {
		// a function without a body here (another package): arguments are arg0, arg1, ... (receiver first)
		for i := range args {
			if i < len(cc.Args) {
				vars[fmt.Sprintf("arg%d", i)] = TV{args[i], cc.Args[i].Type()}
			}
		}
	}
	pre := st.clone()
	// free variables of closures resolve to the caller's cells
	localWitness := map[string]TV{}
	mkCtx := func(cur, old *State) *EvalCtx {
		x := &EvalCtx{c: c, fr: fr, st: cur, old: old, vars: vars, ownerFn: callee}
		x.resolve = func(name string, xc *EvalCtx) (TV, bool) {
			for i, fv := range callee.FreeVars {
				if fv.Name() == name && i < len(bindings) {
					pl := fr.place(bindings[i])
					return TV{fr.load(pl, xc.st), pl.Type}, true
				}
			}
			// a local variable of the callee mentioned in its postcondition: at the call site it is an
			// unknown witness (the postcondition was proved for the value it had)
			if tv, ok := localWitness[name]; ok {
				return tv, true
			}
			t := localVarType(callee, name)
			if t == nil {
				// the callee's local may have been renamed since the contract was written (renames.go)
				for _, cand := range c.eng.renamedCandidates(callee, name) {
					if t2 := localVarType(callee, cand); t2 != nil {
						t = t2
						break
					}
				}
				if t == nil {
					if v := c.eng.inlinedAllocation(callee, name); v != nil {
						t = v.Type()
					}
				}
			}
			if t == nil {
				// witness of a callee's callee: <fn>_<local>
				for i := 1; i < len(name); i++ {
					if name[i] == '_' {
						if fn2, ok := c.eng.funcs[name[:i]]; ok {
							if t2 := localVarType(fn2, name[i+1:]); t2 != nil {
								t = t2
								break
							}
							for _, cand := range c.eng.renamedCandidates(fn2, name[i+1:]) {
								if t2 := localVarType(fn2, cand); t2 != nil {
									t = t2
								}
							}
							if t == nil {
								if v := c.eng.inlinedAllocation(fn2, name[i+1:]); v != nil {
									t = v.Type()
								}
							}
							if t != nil {
								break
							}
						}
					}
				}
			}
			if t != nil {
				tv := TV{c.fresh(fr.id+"wit_"+sanitize(name), c.sortOf(t)), t}
				localWitness[name] = tv
				if fr.witness == nil {
					fr.witness = map[string]TV{}
				}
				// nameable in the caller's own contract as <callee>_<local>
				fr.witness[sanitize(funcKey(callee))+"_"+name] = tv
				return tv, true
			}
			return TV{}, false
		}
		return x
	}
	// requires
	c.callSeq[key]++
	site := fmt.Sprintf("%s/call:%s#%d", funcKey(c.top), key, c.callSeq[key])
	for _, cl := range fc.clauses("requires") {
		if strings.HasPrefix(cl.Label, "callback:") {
			fr.checkCallbackArg(callee, cc, cl, site, at, st)
			continue
		}
		x := mkCtx(st, pre)
		if g, ok := x.evalBool(cl.Expr); ok {
			c.obligeClause(cl, fmt.Sprintf("%s[%s]", site, cl.Label), "requires", at, g, cl.Text)
		}
	}
	// havoc the callee's write set (for an ASSUMED contract the modifies clause is the whole story:
	// its body is not verified, so its syntactic write set is not consulted)
	var ws map[string]bool
	if fc.Trusted != "" {
		// allocation is not a modification: an unverified callee may always allocate (its results may be fresh)
		c.heapVar("nextRef", SInt)
		ws = map[string]bool{"nextRef": true}
	} else {
		ws = c.writeSet(callee)
	}
	declared := map[string]bool{}
	atRefs := map[string][]Term{}
	for _, m := range fc.Modifies {
		if m.At != nil {
			if tv, ok := mkCtx(st, pre).evalAny(m.At); ok {
				for _, h := range c.modifiesHeaps(m.Pat) {
					atRefs[h] = append(atRefs[h], atRef(tv))
				}
			}
			continue
		}
		for _, h := range c.modifiesHeaps(m.Pat) {
			if strings.HasPrefix(h, "CELL:") {
				name := strings.TrimPrefix(h, "CELL:")
				for i, fv := range callee.FreeVars {
					if fv.Name() == name && i < len(bindings) {
						pl := fr.place(bindings[i])
						declared[pl.Heap] = true
					}
				}
				continue
			}
			declared[h] = true
		}
	}
	preNext := c.nextRef(pre)
	touched := map[string]bool{}
	for w := range ws {
		touched[w] = true
	}
	for w := range declared {
		touched[w] = true
	}
	for w := range atRefs {
		touched[w] = true
	}
	for _, w := range sortedKeysOf(touched) {
		if strings.HasPrefix(w, "FV_") {
			// closure cell: translate
			for i, fv := range callee.FreeVars {
				name := "FV_" + sanitize(funcKey(callee)) + "_" + fv.Name()
				if name == w && i < len(bindings) {
					pl := fr.place(bindings[i])
					if declared[pl.Heap] && pl.Kind == "cell" {
						c.havoc(st, pl.Heap)
					}
				}
			}
			continue
		}
		if _, ok := c.heapSorts[w]; !ok {
			continue
		}
		switch {
		case w == "nextRef":
			nr := c.havoc(st, "nextRef")
			c.assume(at, Le(preNext, nr))
		case declared[w]:
			c.havoc(st, w)
		case len(atRefs[w]) > 0:
			// only the named objects may change
			cur := c.get(st, w)
			inner := innerSortOf(c.heapSorts[w])
			for _, r := range atRefs[w] {
				// the nil object (reference 0) has no storage to change
				cur = Ite(Eq(r, IntLit(0)), cur, Store(cur, r, c.fresh(w+"_obj", inner)))
			}
			c.set(st, w, cur)
		case isLocationHeap(w):
			old := c.get(st, w)
			nw := c.havoc(st, w)
			c.n++
			r := fmt.Sprintf("cf!%d", c.n)
			c.assume(at, Term{fmt.Sprintf("(forall ((%s Int)) (! (=> (< %s %s) (= (select %s %s) (select %s %s))) :pattern ((select %s %s))))",
				r, r, preNext.S, nw.S, r, old.S, r, nw.S, r), SBool})
		default:
			// undeclared cell (global, ghost): unchanged; the callee's own frame obligation enforces this
		}
	}
	// results
	res := callee.Signature.Results()
	out := make([]Term, res.Len())
	names := resultNames(callee)
	for i := 0; i < res.Len(); i++ {
		out[i] = c.fresh(fr.id+"r_"+sanitize(key), c.sortOf(res.At(i).Type()))
		fr.assumeAllocated(res.At(i).Type(), out[i], st)
		for _, n := range names[i] {
			vars[n] = TV{out[i], res.At(i).Type()}
		}
	}
	for _, cl := range append(fc.clauses("ensures"), fc.clauses("assume")...) {
		if cl.Kind == "assume" {
			c.trusted["ASSUMED clause ["+cl.Label+"] of "+key] = cl.Text
		}
		x := mkCtx(st, pre)
		if g, ok := x.evalBool(cl.Expr); ok {
			// a clause with a recorded (unrepaired) finding is only assumed outside the recorded shape
			for _, f := range c.eng.findings {
				if f.Kind == "finding" && f.Obligation == fmt.Sprintf("%s/ensures[%s]", key, cl.Label) {
					if f.Shape == "" {
						g = True
						break
					}
					if sx, err := parseExpr(f.Shape); err == nil {
						if sh, ok := mkCtx(st, pre).evalBool(sx); ok {
							g = Or(sh, g)
						} else {
							g = True
						}
					} else {
						g = True
					}
				}
			}
			c.assumeClause(at, g, cl.Label)
		}
	}
	return out
}

func (fr *Frame) encodeCallback(v *ssa.Call, cc *ssa.CallCommon, args []Term, at Term, st *State) {
	c := fr.c
	// a closure known statically through inlining
	if mc, ok := fr.closures[cc.Value]; ok {
		owner := fr
		if fr.closureFrames != nil {
			if of, ok := fr.closureFrames[cc.Value]; ok {
				owner = of
			}
		}
		// evaluate in the owner's frame (bindings are the owner's values) but with the current state
		res := owner.callRepoRes(mc.Fn.(*ssa.Function), mc.Bindings, cc, args, at, st)
		if v != nil {
			fr.setResultsRaw(v, res)
		}
		return
	}
	// function-typed parameter of a higher-order contract (callpre): the callback runs at most once, in a
	// state satisfying the callpre clauses; its own effects are accounted for at the call sites of this function
	if p, ok := cc.Value.(*ssa.Parameter); ok && fr.fc != nil && len(fr.fc.clauses("callpre")) > 0 {
		called := c.cellVar("CB_called", tyBool)
		et := types.Universe.Lookup("error").Type()
		retCell := c.cellVar("CB_ret", et)
		c.oblige(fmt.Sprintf("%s/callback[%s-at-most-once]", funcKey(c.top), p.Name()), "requires", at, Not(c.get(st, called)), "the callback is invoked at most once")
		for _, cl := range fr.fc.clauses("callpre") {
			x := fr.evalCtxAt(st, &State{h: map[string]Term{}}, nil, nil)
			for _, q := range fr.fn.Params {
				if _, isPlace := fr.places[q]; !isPlace {
					x.vars[q.Name()] = TV{fr.val(q), q.Type()}
				}
			}
			if g, ok := x.evalBool(cl.Expr); ok {
				c.oblige(fmt.Sprintf("%s/callpre[%s]", funcKey(c.top), cl.Label), "requires", at, g, cl.Text)
			}
		}
		st.h[called] = True
		r := c.fresh(fr.id+"fnret", SInt)
		st.h[retCell] = r
		c.notes = append(c.notes, fmt.Sprintf("%s: the body is verified with the callback %s abstracted (no effect on the ghost lock state, which is checked at every call site); its other effects are applied at the call sites", funcKey(fr.fn), p.Name()))
		if v != nil {
			fr.setResultsRaw(v, []Term{r})
		}
		return
	}
	// function-typed parameter: use the contract's callback clause
	if p, ok := cc.Value.(*ssa.Parameter); ok && fr.fc != nil {
		sig := cc.Signature()
		res := make([]Term, sig.Results().Len())
		vars := map[string]TV{}
		for i, a := range args {
			vars[fmt.Sprintf("arg%d", i)] = TV{a, cc.Args[i].Type()}
		}
		for i := range res {
			res[i] = c.fresh(fr.id+"cb", c.sortOf(sig.Results().At(i).Type()))
			vars[fmt.Sprintf("res%d", i)] = TV{res[i], sig.Results().At(i).Type()}
		}
		found := false
		for _, cl := range fr.fc.Clauses {
			if cl.Kind == "requires" && strings.HasPrefix(cl.Label, "callback:"+p.Name()) {
				found = true
				x := &EvalCtx{c: c, fr: fr, st: st, old: st, vars: vars}
				if g, ok := x.evalBool(cl.Expr); ok {
					c.assume(at, g)
				}
			}
		}
		if !found {
			c.errorf("%s: call through function parameter %s without a [callback:%s] clause", funcKey(fr.fn), p.Name(), p.Name())
		}
		c.notes = append(c.notes, fmt.Sprintf("%s: callback %s assumed effect-free, constrained only by its [callback:...] clause", funcKey(fr.fn), p.Name()))
		if v != nil {
			fr.setResultsRaw(v, res)
		}
		return
	}
	c.errorf("%s: dynamic call %s not supported", funcKey(fr.fn), cc.Value)
	if v != nil {
		sig := cc.Signature()
		res := make([]Term, sig.Results().Len())
		for i := range res {
			res[i] = c.fresh("dyn", c.sortOf(sig.Results().At(i).Type()))
		}
		fr.setResultsRaw(v, res)
	}
}

func (fr *Frame) setResultsRaw(v *ssa.Call, res []Term) {
	if len(res) == 1 {
		fr.vals[v] = res[0]
		return
	}
	fr.tuples[v] = res
}

// ---------------------------------------------------------------------------
// builtins

func (fr *Frame) encodeBuiltin(v *ssa.Call, b *ssa.Builtin, cc *ssa.CallCommon, at Term, st *State) {
	c := fr.c
	switch b.Name() {
	case "len":
		a := fr.val(cc.Args[0])
		switch cc.Args[0].Type().Underlying().(type) {
		case *types.Slice:
			fr.vals[v] = slLen(a)
		case *types.Map:
			dom, _, ks, _ := c.mapHeaps(cc.Args[0].Type())
			fr.vals[v] = c.card(Select(c.get(st, dom), a, ArraySort(ks, SBool)))
		case *types.Basic:
			fr.vals[v] = Term{app("strLen", a), SInt}
			c.assert(Le(IntLit(0), fr.vals[v]))
		default:
			c.errorf("%s: len of %s", funcKey(fr.fn), cc.Args[0].Type())
		}
	case "cap":
		fr.vals[v] = slCap(fr.val(cc.Args[0]))
	case "delete":
		m := fr.val(cc.Args[0])
		k := fr.val(cc.Args[1])
		dom, _, ks, _ := c.mapHeaps(cc.Args[0].Type())
		d := c.get(st, dom)
		// deleting from a nil map is a no-op; dom[0] stays empty
		c.set(st, dom, Store(d, m, Store(Select(d, m, ArraySort(ks, SBool)), k, False)))
	case "append":
		fr.encodeAppend(v, cc, at, st)
	default:
		c.errorf("%s: builtin %s not supported", funcKey(fr.fn), b.Name())
		if v != nil {
			fr.vals[v] = c.fresh("undef", c.sortOf(v.Type()))
		}
	}
}

func (fr *Frame) encodeAppend(v *ssa.Call, cc *ssa.CallCommon, at Term, st *State) {
	c := fr.c
	slT, ok := cc.Args[0].Type().Underlying().(*types.Slice)
	if !ok {
		c.errorf("%s: append to %s", funcKey(fr.fn), cc.Args[0].Type())
		return
	}
	s := fr.val(cc.Args[0])
	heap, es := c.elemHeap(slT.Elem())
	innerSort := ArraySort(SInt, es)
	h := c.get(st, heap)
	base := Add(slOff(s), slLen(s)) // numeric bound of the window
	basePos := func(k int64) Term {
		if k == 0 {
			return pos(slOff(s), slLen(s))
		}
		return pos(slOff(s), Add(slLen(s), IntLit(k)))
	}
	oldInner := Select(h, slArr(s), innerSort)
	var newInner Term
	var n Term
	// pattern: second arg is a slice of a fresh fixed-size array
	if sl, ok := cc.Args[1].(*ssa.Slice); ok && sl.Low == nil && sl.High == nil {
		if al, ok := sl.X.(*ssa.Alloc); ok {
			if arr, ok := al.Type().Underlying().(*types.Pointer).Elem().Underlying().(*types.Array); ok {
				cnt := arr.Len()
				n = IntLit(cnt)
				newInner = oldInner
				src := Select(h, fr.val(al), innerSort)
				set := c.elemsOf(oldInner, slOff(s), slLen(s), es)
				for i := int64(0); i < cnt; i++ {
					ev := Select(src, IntLit(i), es)
					newInner = Store(newInner, basePos(i), ev)
					// element-set view of the extended window (follows from the definition of elemsOf)
					ns := c.elemsOf(newInner, slOff(s), Add(slLen(s), IntLit(i+1)), es)
					c.assert(Eq(ns, Store(set, ev, True)))
					set = ns
				}
			}
		}
	}
	if newInner.S == "" {
		// general case: append(s, t...)
		if b, ok := cc.Args[1].Type().Underlying().(*types.Basic); ok && b.Info()&types.IsString != 0 {
			c.errorf("%s: append(bytes, string...) not supported", funcKey(fr.fn))
			return
		}
		t := fr.val(cc.Args[1])
		n = slLen(t)
		newInner = c.fresh("appended", innerSort)
		tInner := Select(h, slArr(t), innerSort)
		c.n++
		j := fmt.Sprintf("aj!%d", c.n)
		c.assert(Term{fmt.Sprintf("(forall ((%s Int)) (! (=> (or (< %s %s) (>= %s (+ %s %s))) (= (select %s %s) (select %s %s))) :pattern ((select %s %s))))",
			j, j, base.S, j, base.S, n.S, newInner.S, j, oldInner.S, j, newInner.S, j), SBool})
		// the appended window, by absolute position p: new[p] = t[offT + (p - base)]
		c.assert(Term{fmt.Sprintf("(forall ((%s Int)) (! (=> (and (<= %s %s) (< %s (+ %s %s))) (= (select %s %s) (select %s (idx %s (- %s %s))))) :pattern ((select %s %s))))",
			j, base.S, j, j, base.S, n.S, newInner.S, j, tInner.S, slOff(t).S, j, base.S, newInner.S, j), SBool})
	}
	newLen := Add(slLen(s), n)
	inplace := Le(newLen, slCap(s))
	freshArr := c.allocRef(st)
	arr2 := Ite(inplace, slArr(s), freshArr)
	capFresh := c.fresh("cap", SInt)
	c.assert(Le(newLen, capFresh))
	c.set(st, heap, Store(h, arr2, newInner))
	res := Term{app("mk-slice", arr2, slOff(s), newLen, Ite(inplace, slCap(s), capFresh)), SSlice}
	if v != nil {
		sym := c.fresh(fr.id+v.Name(), SSlice)
		c.assert(Eq(sym, res))
		fr.vals[v] = sym
	}
}

// checkCallbackArg: a [callback:param] clause constrains the function passed for param; at a call site the
// passed function (a static function or closure literal) is inlined on symbolic arguments and must satisfy it.
func (fr *Frame) checkCallbackArg(callee *ssa.Function, cc *ssa.CallCommon, cl *Clause, site string, at Term, st *State) {
	c := fr.c
	pname := strings.TrimPrefix(cl.Label, "callback:")
	for i, p := range callee.Params {
		if p.Name() != pname || i >= len(cc.Args) {
			continue
		}
		var fn *ssa.Function
		var bindings []ssa.Value
		switch a := cc.Args[i].(type) {
		case *ssa.Function:
			fn = a
		case *ssa.MakeClosure:
			fn = a.Fn.(*ssa.Function)
			bindings = a.Bindings
		}
		if fn == nil || !autoInlinable(fn) {
			c.errorf("%s: cannot check callback clause [%s]: argument is not a small static function", funcKey(fr.fn), cl.Label)
			return
		}
		vars := map[string]TV{}
		var args []Term
		for j, q := range fn.Params {
			a := c.fresh("cbarg", c.sortOf(q.Type()))
			args = append(args, a)
			vars[fmt.Sprintf("arg%d", j)] = TV{a, q.Type()}
		}
		scratch := st.clone()
		fake := &ssa.CallCommon{Value: fn, Args: nil}
		res := fr.inlineCall(fn, bindings, fake, args, at, scratch)
		c.inlined[funcKey(fn)] = true
		for j, r := range res {
			vars[fmt.Sprintf("res%d", j)] = TV{r, fn.Signature.Results().At(j).Type()}
		}
		x := &EvalCtx{c: c, fr: fr, st: scratch, old: st, vars: vars}
		if g, ok := x.evalBool(cl.Expr); ok {
			c.obligeClause(cl, fmt.Sprintf("%s[%s]", site, cl.Label), "requires", at, g, cl.Text)
		}
		return
	}
	c.errorf("%s: callback clause [%s] names no parameter of %s", funcKey(fr.fn), cl.Label, funcKey(callee))
}

// applyHigherOrder applies the contract of a function that calls its function argument at most once
// (clauses callpre/called/fnret), composing it with the contract of the closure passed at this site.
func (fr *Frame) applyHigherOrder(callee *ssa.Function, fc *FuncContract, cc *ssa.CallCommon, args []Term, at Term, st *State) []Term {
	c := fr.c
	key := funcKey(callee)
	c.callees[key] = true
	c.callSeq[key]++
	site := fmt.Sprintf("%s/call:%s#%d", funcKey(c.top), key, c.callSeq[key])
	// locate the function argument
	var cbFn *ssa.Function
	var cbBindings []ssa.Value
	for _, a := range cc.Args {
		switch x := a.(type) {
		case *ssa.MakeClosure:
			cbFn = x.Fn.(*ssa.Function)
			cbBindings = x.Bindings
		case *ssa.Function:
			cbFn = x
		}
	}
	et := types.Universe.Lookup("error").Type()
	res := []Term{c.fresh(fr.id+"r_"+sanitize(key), SInt)}
	if cbFn == nil {
		c.errorf("%s: call of higher-order %s without a literal function argument", funcKey(fr.fn), key)
		return res
	}
	cbKey := funcKey(cbFn)
	cbFc := c.eng.cf.Funcs[cbKey]
	if cbFc == nil {
		c.errorf("%s: closure %s passed to %s needs a contract", funcKey(fr.fn), cbKey, key)
		return res
	}
	vars := map[string]TV{}
	for i, p := range callee.Params {
		vars[p.Name()] = TV{args[i], p.Type()}
	}
	pre := st.clone()
	mk := func(cur, old *State) *EvalCtx {
		return &EvalCtx{c: c, fr: fr, st: cur, old: old, vars: vars}
	}
	for _, cl := range fc.clauses("requires") {
		if g, ok := mk(st, pre).evalBool(cl.Expr); ok {
			c.obligeClause(cl, fmt.Sprintf("%s[%s]", site, cl.Label), "requires", at, g, cl.Text)
		}
	}
	// the callback must leave the callee's own ghost state alone
	var own []string
	for _, m := range fc.Modifies {
		own = append(own, c.modifiesHeaps(m.Pat)...)
	}
	cbWrites := c.writeSet(cbFn)
	for _, h := range own {
		if cbWrites[h] {
			c.errorf("%s: closure %s writes %s, which belongs to %s", funcKey(fr.fn), cbKey, h, key)
		}
	}
	// state in which the callback runs
	stCall := st.clone()
	for _, h := range own {
		if _, ok := c.heapSorts[h]; ok {
			c.havoc(stCall, h)
		}
	}
	called := c.fresh(fr.id+"called", SBool)
	for _, cl := range fc.clauses("callpre") {
		if g, ok := mk(stCall, pre).evalBool(cl.Expr); ok {
			c.assume(And(at, called), g)
		}
	}
	// the callback itself, by its contract
	cbRes := fr.applyContract(cbFn, cbFc, cbBindings, &ssa.CallCommon{Value: cbFn}, nil, And(at, called), stCall)
	fnret := IntLit(0)
	if len(cbRes) > 0 {
		fnret = cbRes[0]
	}
	// merge: called -> stCall, otherwise pre
	keys := map[string]bool{}
	for k := range stCall.h {
		keys[k] = true
	}
	for _, k := range sortedKeysOf(keys) {
		a, b := c.get(stCall, k), c.get(pre, k)
		if a.S == b.S {
			continue
		}
		sym := c.fresh(k, c.heapSorts[k])
		c.assert(Eq(sym, Ite(called, a, b)))
		st.h[k] = sym
	}
	// the callee's own ghost state after the call
	for _, h := range own {
		if _, ok := c.heapSorts[h]; ok {
			c.havoc(st, h)
		}
	}
	vars["called"] = TV{called, tyBool}
	vars["fnret"] = TV{fnret, et}
	for _, n := range resultNames(callee)[0] {
		vars[n] = TV{res[0], et}
	}
	for _, cl := range fc.clauses("ensures") {
		if g, ok := mk(st, pre).evalBool(cl.Expr); ok {
			c.assume(at, g)
		}
	}
	return res
}

// localVarType finds the type of a local variable of fn by name (nil if none).
func localVarType(fn *ssa.Function, name string) types.Type {
	for _, b := range fn.Blocks {
		for _, ins := range b.Instrs {
			if dr, ok := ins.(*ssa.DebugRef); ok {
				if obj := dr.Object(); obj != nil && obj.Name() == name {
					if v, ok := obj.(*types.Var); ok {
						return v.Type()
					}
				}
			}
		}
	}
	return nil
}
