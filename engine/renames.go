package main

import (
	"encoding/json"
	"go/types"
	"os"
	"path/filepath"
	"sort"

	"golang.org/x/tools/go/ssa"
)

// Rename tolerance. Contracts live in a separate file and name parameters and locals of the functions they
// describe; a maintainer who renames a local should not get an alarm. `ergoverify baseline` records, per function
// under contract, the ordered list (source position order) of its variables with their types. At check time, if the
// current function still has as many variables of the type in question as it had then, a name the contract uses but
// the code no longer has is resolved to the variable now standing at the same position among the variables of that
// type. If their number differs no guess is made and the contract is reported as no longer binding.

type localDecl struct {
	Name string `json:"name"`
	Type string `json:"type"`
}

// functionLocals lists parameters, captured variables and source-level locals of fn in declaration order.
func functionLocals(fn *ssa.Function) []localDecl {
	var out []localDecl
	for _, p := range fn.Params {
		out = append(out, localDecl{p.Name(), p.Type().String()})
	}
	for _, fv := range fn.FreeVars {
		out = append(out, localDecl{fv.Name(), fv.Type().String()})
	}
	type ov struct {
		obj *types.Var
	}
	seen := map[*types.Var]bool{}
	var vars []*types.Var
	params := map[string]bool{}
	for _, p := range fn.Params {
		params[p.Name()] = true
	}
	for _, b := range fn.Blocks {
		for _, ins := range b.Instrs {
			dr, ok := ins.(*ssa.DebugRef)
			if !ok {
				continue
			}
			v, ok := dr.Object().(*types.Var)
			if !ok || seen[v] || v.IsField() {
				continue
			}
			seen[v] = true
			vars = append(vars, v)
		}
	}
	sort.Slice(vars, func(i, j int) bool { return vars[i].Pos() < vars[j].Pos() })
	first := true
	for _, v := range vars {
		// parameters show up as objects too; they are already listed
		if first && params[v.Name()] {
			isParam := false
			for _, p := range fn.Params {
				if p.Object() == v {
					isParam = true
				}
			}
			if isParam {
				continue
			}
		}
		isParam := false
		for _, p := range fn.Params {
			if p.Object() == v {
				isParam = true
			}
		}
		if isParam {
			continue
		}
		out = append(out, localDecl{v.Name(), v.Type().String()})
	}
	return out
}

func loadLocalsBaseline() map[string][]localDecl {
	data, err := os.ReadFile(filepath.Join(verifRoot(), "baseline", "locals.json"))
	if err != nil {
		return nil
	}
	m := map[string][]localDecl{}
	_ = json.Unmarshal(data, &m)
	return m
}

// renamedCandidates: the current names of the variables that were called `name` when the contract was written,
// provided the function's variable list still has the recorded shape.
func (e *Engine) renamedCandidates(fn *ssa.Function, name string) []string {
	if e.localsBase == nil {
		return nil
	}
	base, ok := e.localsBase[funcKey(fn)]
	if !ok {
		return nil
	}
	cur := functionLocals(fn)
	// per type: the variables of that type, in declaration order, then and now. A rename keeps type and position
	// among the variables of its type; variables of other types may have been added or removed around it.
	var out []string
	types := map[string]bool{}
	for _, b := range base {
		if b.Name == name {
			types[b.Type] = true
		}
	}
	for t := range types {
		var baseT, curT []string
		for _, b := range base {
			if b.Type == t {
				baseT = append(baseT, b.Name)
			}
		}
		for _, c := range cur {
			if c.Type == t {
				curT = append(curT, c.Name)
			}
		}
		if len(baseT) != len(curT) {
			continue
		}
		for i := range baseT {
			if baseT[i] == name && curT[i] != name {
				out = append(out, curT[i])
			}
		}
	}
	return out
}

func (c *Enc) note(s string) {
	for _, n := range c.notes {
		if n == s {
			return
		}
	}
	c.notes = append(c.notes, s)
}

// inlinedAllocation: the contract names a local that no longer exists, but which held a fresh allocation
// (`visited := make(map[string]bool)` now written inline as an argument). If the function creates exactly one value of
// the recorded type with make/new, that value is what the name denoted.
func (e *Engine) inlinedAllocation(fn *ssa.Function, name string) ssa.Value {
	base, ok := e.localsBase[funcKey(fn)]
	if !ok {
		return nil
	}
	typ := ""
	for _, b := range base {
		if b.Name == name {
			if typ != "" && typ != b.Type {
				return nil
			}
			typ = b.Type
		}
	}
	if typ == "" {
		return nil
	}
	var found ssa.Value
	for _, b := range fn.Blocks {
		for _, ins := range b.Instrs {
			switch v := ins.(type) {
			case *ssa.MakeMap, *ssa.MakeSlice:
				val := v.(ssa.Value)
				if val.Type().String() == typ {
					if found != nil {
						return nil
					}
					found = val
				}
			}
		}
	}
	return found
}
