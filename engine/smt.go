package main

import (
	"bytes"
	"context"
	"fmt"
	"os"
	"os/exec"
	"path/filepath"
	"regexp"
	"strings"
	"sync"
	"time"
)

// Sort is an SMT sort name. Strings, references, map references, times and
// errors are all Int (see DESIGN §4.2 as revised in §13).
type Sort string

const (
	SBool  Sort = "Bool"
	SInt   Sort = "Int"
	SSlice Sort = "Slice"
	SAny   Sort = "Any"
	SUnit  Sort = "Unit"
)

type Term struct {
	S    string
	Sort Sort
}

func T(s string, sort Sort) Term { return Term{s, sort} }

var (
	True  = Term{"true", SBool}
	False = Term{"false", SBool}
)

func IntLit(n int64) Term {
	if n < 0 {
		return Term{fmt.Sprintf("(- %d)", -n), SInt}
	}
	return Term{fmt.Sprintf("%d", n), SInt}
}

func app(op string, args ...Term) string {
	var b strings.Builder
	b.WriteString("(")
	b.WriteString(op)
	for _, a := range args {
		b.WriteString(" ")
		b.WriteString(a.S)
	}
	b.WriteString(")")
	return b.String()
}

func And(ts ...Term) Term {
	var keep []Term
	for _, t := range ts {
		if t.S == "true" {
			continue
		}
		if t.S == "false" {
			return False
		}
		keep = append(keep, t)
	}
	if len(keep) == 0 {
		return True
	}
	if len(keep) == 1 {
		return keep[0]
	}
	return Term{app("and", keep...), SBool}
}

func Or(ts ...Term) Term {
	var keep []Term
	for _, t := range ts {
		if t.S == "false" {
			continue
		}
		if t.S == "true" {
			return True
		}
		keep = append(keep, t)
	}
	if len(keep) == 0 {
		return False
	}
	if len(keep) == 1 {
		return keep[0]
	}
	return Term{app("or", keep...), SBool}
}

func Not(t Term) Term {
	if t.S == "true" {
		return False
	}
	if t.S == "false" {
		return True
	}
	return Term{app("not", t), SBool}
}

func Implies(a, b Term) Term {
	if a.S == "true" {
		return b
	}
	if a.S == "false" || b.S == "true" {
		return True
	}
	return Term{app("=>", a, b), SBool}
}

func Eq(a, b Term) Term {
	if a.S == b.S {
		return True
	}
	return Term{app("=", a, b), SBool}
}

func Ite(c, a, b Term) Term {
	if c.S == "true" {
		return a
	}
	if c.S == "false" {
		return b
	}
	return Term{app("ite", c, a, b), a.Sort}
}

func Select(arr Term, idx Term, elem Sort) Term { return Term{app("select", arr, idx), elem} }
func Store(arr, idx, v Term) Term               { return Term{app("store", arr, idx, v), arr.Sort} }
func Add(a, b Term) Term                        { return Term{app("+", a, b), SInt} }
func Sub(a, b Term) Term                        { return Term{app("-", a, b), SInt} }
func Lt(a, b Term) Term                         { return Term{app("<", a, b), SBool} }
func Le(a, b Term) Term                         { return Term{app("<=", a, b), SBool} }

func ArraySort(k, v Sort) Sort { return Sort(fmt.Sprintf("(Array %s %s)", k, v)) }

// ---------------------------------------------------------------------------
// Solver portfolio

type SolverResult struct {
	Status string // unsat | sat | unknown | timeout | error
	Solver string
	TimeS  float64
	Output string // raw output (first 64k)
	Model  map[string]string
	Replay *ReplayResult
}

// ReplayResult records a counterexample replayed against the real code.
type ReplayResult struct {
	Confirmed bool   `json:"confirmed"`
	TestFile  string `json:"test_file,omitempty"`
	Command   string `json:"command,omitempty"`
	Output    string `json:"output,omitempty"`
	Inputs    string `json:"inputs,omitempty"`
}

// lambdaFrames rewrites frame assumptions
//
//	(=> at (forall ((x Int)) (! (=> (< x PRE) (= (select NEW x) (select OLD x))) :pattern ...)))
//
// into the equivalent array equation NEW = (lambda x. ite(x < PRE, OLD[x], F[x])) with a fresh array F
// (take F := NEW for one direction; the other is beta reduction). Z3 evaluates selects of a lambda natively,
// so dozens of e-matching quantifiers per call disappear from the query. Z3-only syntax.
var frameAxiomRe = regexp.MustCompile(`^\(assert \(=> (\S+) \(forall \(\(((?:cf|fr)![0-9]+) Int\)\) \(! \(=> \(< (\S+) (\S+)\) \(= \(select (\S+) (\S+)\) \(select (\S+) (\S+)\)\)\) :pattern \(\(select \S+ \S+\)\)\)\)\)\)$`)
var declConstRe = regexp.MustCompile(`^\(declare-(?:const (\S+)|fun (\S+) \(\)) (.*)\)$`)

func lambdaFrames(query string) string {
	lines := strings.Split(query, "\n")
	sorts := map[string]string{}
	for _, l := range lines {
		if m := declConstRe.FindStringSubmatch(l); m != nil {
			name := m[1]
			if name == "" {
				name = m[2]
			}
			sorts[name] = m[3]
		}
	}
	var out, extra []string
	n := 0
	for _, l := range lines {
		m := frameAxiomRe.FindStringSubmatch(l)
		if m == nil || m[2] != m[3] || m[2] != m[6] || m[2] != m[8] || sorts[m[5]] == "" {
			out = append(out, l)
			continue
		}
		n++
		f := fmt.Sprintf("lamfresh!%d", n)
		extra = append(extra, fmt.Sprintf("(declare-const %s %s)", f, sorts[m[5]]))
		out = append(out, fmt.Sprintf("(assert (=> %s (= %s (lambda ((lr Int)) (ite (< lr %s) (select %s lr) (select %s lr))))))", m[1], m[5], m[4], m[7], f))
	}
	if n == 0 {
		return query
	}
	for i, l := range out {
		if strings.HasPrefix(l, "(assert") {
			res := append([]string{}, out[:i]...)
			res = append(res, extra...)
			res = append(res, out[i:]...)
			return strings.Join(res, "\n")
		}
	}
	return query
}

type solverSpec struct {
	name string
	args func(file string, timeoutS int) []string
}

var solvers = []solverSpec{
	{"z3-new", func(f string, t int) []string { return []string{"z3-new", fmt.Sprintf("-T:%d", t), f} }},
	{"z3", func(f string, t int) []string { return []string{"/usr/bin/z3", fmt.Sprintf("-T:%d", t), f} }},
	{"cvc5", func(f string, t int) []string {
		return []string{"cvc5", fmt.Sprintf("--tlimit=%d", t*1000), "--produce-models", f}
	}},
}

// Without the array extensionality axiom and without model-based instantiation the solver decides a weaker
// theory: its `unsat` answers stand (only valid axioms were used), its `sat` answers do not and are reported as
// unknown. Array-valued equalities under quantifiers (frame conditions over map domains) otherwise drown the
// e-matching engine in extensionality witnesses. This configuration reads the lambda-frame form of a query.
var noextSolver = solverSpec{"z3-new-noext", func(f string, t int) []string {
	return []string{"z3-new", fmt.Sprintf("-T:%d", t), "smt.array.extensional=false", "smt.mbqi=false", f}
}}

var solverSem = make(chan struct{}, 16)

// solverJob: one solver process on one query file.
type solverJob struct {
	spec      solverSpec
	file      string
	label     string // reported solver name
	unsatOnly bool   // a `sat` answer of this job carries no meaning (weakened query or weakened theory)
}

func runJob(ctx context.Context, j solverJob, timeoutS int) SolverResult {
	solverSem <- struct{}{}
	defer func() { <-solverSem }()
	if ctx.Err() != nil {
		return SolverResult{Status: "cancelled", Solver: j.label}
	}
	args := j.spec.args(j.file, timeoutS)
	start := time.Now()
	cctx, ccancel := context.WithTimeout(ctx, time.Duration(timeoutS+2)*time.Second)
	defer ccancel()
	cmd := exec.CommandContext(cctx, args[0], args[1:]...)
	var out bytes.Buffer
	cmd.Stdout = &out
	cmd.Stderr = &out
	_ = cmd.Run()
	el := time.Since(start).Seconds()
	text := out.String()
	if len(text) > 1<<16 {
		text = text[:1<<16]
	}
	first := strings.TrimSpace(strings.SplitN(text, "\n", 2)[0])
	r := SolverResult{Solver: j.label, TimeS: el, Output: text}
	switch {
	case first == "unsat":
		r.Status = "unsat"
	case first == "sat" && j.unsatOnly:
		r.Status = "unknown"
	case first == "sat":
		r.Status = "sat"
		r.Model = parseGetValues(text)
	case first == "unknown":
		r.Status = "unknown"
		if !j.unsatOnly {
			r.Model = parseGetValues(text)
		}
	case first == "timeout" || cctx.Err() != nil:
		r.Status = "timeout"
	default:
		if strings.Contains(text, "timeout") || strings.Contains(text, "interrupted") {
			r.Status = "timeout"
		} else {
			r.Status = "error"
		}
	}
	return r
}

// raceJobs runs the jobs concurrently; the first definite answer (unsat or sat) wins unless all is set.
func raceJobs(jobs []solverJob, timeoutS int, all bool) SolverResult {
	ctx, cancel := context.WithCancel(context.Background())
	defer cancel()
	results := make(chan SolverResult, len(jobs))
	var wg sync.WaitGroup
	for _, j := range jobs {
		wg.Add(1)
		go func(j solverJob) {
			defer wg.Done()
			results <- runJob(ctx, j, timeoutS)
		}(j)
	}
	go func() { wg.Wait(); close(results) }()
	var best SolverResult
	var definite []SolverResult
	rank := map[string]int{"": 0, "cancelled": 1, "error": 2, "timeout": 3, "unknown": 4}
	for r := range results {
		if r.Status == "unsat" || r.Status == "sat" {
			definite = append(definite, r)
			if !all {
				cancel()
				go func() {
					for range results {
					}
				}()
				return r
			}
			continue
		}
		if rank[r.Status] > rank[best.Status] || best.Solver == "" {
			best = r
		}
	}
	if len(definite) > 0 {
		for _, d := range definite[1:] {
			if d.Status != definite[0].Status {
				return SolverResult{Status: "error", Solver: "portfolio",
					Output: fmt.Sprintf("solver disagreement: %s says %s, %s says %s", definite[0].Solver, definite[0].Status, d.Solver, d.Status)}
			}
		}
		return definite[0]
	}
	return best
}

func withValues(query string, getValues []string) string {
	var full strings.Builder
	full.WriteString(query)
	full.WriteString("(check-sat)\n")
	// ask for values in chunks; harmless after unsat (error line ignored)
	for i := 0; i < len(getValues); i += 40 {
		j := i + 40
		if j > len(getValues) {
			j = len(getValues)
		}
		full.WriteString("(get-value (" + strings.Join(getValues[i:j], " ") + "))\n")
	}
	return full.String()
}

// runPortfolio races the solvers on the query text; the first definite answer
// (unsat or sat) wins. If all say unknown/timeout the best non-answer is returned.
func runPortfolio(scratch, name, query string, getValues []string, timeoutS int, all bool) SolverResult {
	return runStaged(scratch, name, query, nil, getValues, timeoutS, all)
}

// runStaged: stage 1 tries the weakened variants of the query (fewer assumptions, lambda frames, no
// extensionality) with a short limit: most obligations end here in a fraction of a second. Stage 2 races the
// full query on all solvers together with the weakened variants at the full limit.
func runStaged(scratch, name, full string, weakened []string, getValues []string, timeoutS int, all bool) SolverResult {
	base := filepath.Join(scratch, sanitize(name))
	file := base + ".smt2"
	if err := os.WriteFile(file, []byte(withValues(full, getValues)), 0644); err != nil {
		return SolverResult{Status: "error", Output: err.Error()}
	}
	var fast []solverJob
	seen := map[string]bool{}
	for i, w := range append(weakened, full) {
		if seen[w] {
			continue
		}
		seen[w] = true
		f := fmt.Sprintf("%s.w%d.smt2", base, i)
		if err := os.WriteFile(f, []byte(lambdaFrames(w)+"(check-sat)\n"), 0644); err != nil {
			return SolverResult{Status: "error", Output: err.Error()}
		}
		label := noextSolver.name
		if i < len(weakened) {
			label = fmt.Sprintf("%s/slice%d", noextSolver.name, i)
		}
		fast = append(fast, solverJob{spec: noextSolver, file: f, label: label, unsatOnly: true})
	}
	if !all {
		t1 := 5
		if timeoutS < t1 {
			t1 = timeoutS
		}
		if r := raceJobs(fast, t1, false); r.Status == "unsat" {
			return r
		}
	}
	jobs := append([]solverJob{}, fast...)
	for _, sp := range solvers {
		jobs = append(jobs, solverJob{spec: sp, file: file, label: sp.name})
	}
	return raceJobs(jobs, timeoutS, all)
}

func sanitize(s string) string {
	var b strings.Builder
	for _, r := range s {
		if (r >= 'a' && r <= 'z') || (r >= 'A' && r <= 'Z') || (r >= '0' && r <= '9') || r == '-' || r == '_' || r == '.' {
			b.WriteRune(r)
		} else {
			b.WriteRune('_')
		}
	}
	out := b.String()
	if len(out) > 120 {
		out = out[:120]
	}
	return out
}

// parseGetValues reads "((name value) (name value))" blocks following the status line.
func parseGetValues(out string) map[string]string {
	m := map[string]string{}
	idx := strings.Index(out, "\n")
	if idx < 0 {
		return m
	}
	text := out[idx+1:]
	toks := tokenizeSexp(text)
	pos := 0
	var parse func() interface{}
	parse = func() interface{} {
		if pos >= len(toks) {
			return nil
		}
		t := toks[pos]
		pos++
		if t == "(" {
			var list []interface{}
			for pos < len(toks) && toks[pos] != ")" {
				list = append(list, parse())
			}
			pos++
			return list
		}
		return t
	}
	for pos < len(toks) {
		v := parse()
		list, ok := v.([]interface{})
		if !ok {
			continue
		}
		for _, pair := range list {
			p, ok := pair.([]interface{})
			if !ok || len(p) != 2 {
				continue
			}
			m[sexpString(p[0])] = sexpString(p[1])
		}
	}
	return m
}

func sexpString(v interface{}) string {
	switch x := v.(type) {
	case string:
		return x
	case []interface{}:
		parts := make([]string, len(x))
		for i, e := range x {
			parts[i] = sexpString(e)
		}
		return "(" + strings.Join(parts, " ") + ")"
	}
	return ""
}

func tokenizeSexp(s string) []string {
	var toks []string
	i := 0
	for i < len(s) {
		c := s[i]
		switch {
		case c == '(' || c == ')':
			toks = append(toks, string(c))
			i++
		case c == ' ' || c == '\n' || c == '\t' || c == '\r':
			i++
		case c == '"':
			j := i + 1
			for j < len(s) && s[j] != '"' {
				j++
			}
			toks = append(toks, s[i:min(j+1, len(s))])
			i = j + 1
		case c == '|':
			j := i + 1
			for j < len(s) && s[j] != '|' {
				j++
			}
			toks = append(toks, s[i:min(j+1, len(s))])
			i = j + 1
		default:
			j := i
			for j < len(s) && !strings.ContainsRune("() \n\t\r", rune(s[j])) {
				j++
			}
			toks = append(toks, s[i:j])
			i = j
		}
	}
	return toks
}

// runSingle runs one solver (z3 5.x) on a small ground query.
func runSingle(scratch, name, query string, timeoutS int) SolverResult {
	file := filepath.Join(scratch, sanitize(name)+".smt2")
	if err := os.WriteFile(file, []byte(query+"(check-sat)\n"), 0644); err != nil {
		return SolverResult{Status: "error", Output: err.Error()}
	}
	start := time.Now()
	out, _ := exec.Command("z3-new", fmt.Sprintf("-T:%d", timeoutS), file).CombinedOutput()
	first := strings.TrimSpace(strings.SplitN(string(out), "\n", 2)[0])
	r := SolverResult{Solver: "z3-new", TimeS: time.Since(start).Seconds(), Output: string(out)}
	switch first {
	case "sat", "unsat", "unknown":
		r.Status = first
	default:
		r.Status = "error"
	}
	return r
}
