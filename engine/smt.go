package main

import (
	"bytes"
	"context"
	"fmt"
	"os"
	"os/exec"
	"path/filepath"
	"strings"
	"sync"
	"time"
)

// Sort is an SMT sort name. Strings, references, map references, times and
// errors are all Int (see DESIGN §4.2 as revised in §13).
type Sort string

const (
	SBool  Sort = "Bool"
	SInt   Sort = "Int"
	SSlice Sort = "Slice"
	SAny   Sort = "Any"
	SUnit  Sort = "Unit"
)

type Term struct {
	S    string
	Sort Sort
}

func T(s string, sort Sort) Term { return Term{s, sort} }

var (
	True  = Term{"true", SBool}
	False = Term{"false", SBool}
)

func IntLit(n int64) Term {
	if n < 0 {
		return Term{fmt.Sprintf("(- %d)", -n), SInt}
	}
	return Term{fmt.Sprintf("%d", n), SInt}
}

func app(op string, args ...Term) string {
	var b strings.Builder
	b.WriteString("(")
	b.WriteString(op)
	for _, a := range args {
		b.WriteString(" ")
		b.WriteString(a.S)
	}
	b.WriteString(")")
	return b.String()
}

func And(ts ...Term) Term {
	var keep []Term
	for _, t := range ts {
		if t.S == "true" {
			continue
		}
		if t.S == "false" {
			return False
		}
		keep = append(keep, t)
	}
	if len(keep) == 0 {
		return True
	}
	if len(keep) == 1 {
		return keep[0]
	}
	return Term{app("and", keep...), SBool}
}

func Or(ts ...Term) Term {
	var keep []Term
	for _, t := range ts {
		if t.S == "false" {
			continue
		}
		if t.S == "true" {
			return True
		}
		keep = append(keep, t)
	}
	if len(keep) == 0 {
		return False
	}
	if len(keep) == 1 {
		return keep[0]
	}
	return Term{app("or", keep...), SBool}
}

func Not(t Term) Term {
	if t.S == "true" {
		return False
	}
	if t.S == "false" {
		return True
	}
	return Term{app("not", t), SBool}
}

func Implies(a, b Term) Term {
	if a.S == "true" {
		return b
	}
	if a.S == "false" || b.S == "true" {
		return True
	}
	return Term{app("=>", a, b), SBool}
}

func Eq(a, b Term) Term {
	if a.S == b.S {
		return True
	}
	return Term{app("=", a, b), SBool}
}

func Ite(c, a, b Term) Term {
	if c.S == "true" {
		return a
	}
	if c.S == "false" {
		return b
	}
	return Term{app("ite", c, a, b), a.Sort}
}

func Select(arr Term, idx Term, elem Sort) Term { return Term{app("select", arr, idx), elem} }
func Store(arr, idx, v Term) Term             { return Term{app("store", arr, idx, v), arr.Sort} }
func Add(a, b Term) Term                      { return Term{app("+", a, b), SInt} }
func Sub(a, b Term) Term                      { return Term{app("-", a, b), SInt} }
func Lt(a, b Term) Term                       { return Term{app("<", a, b), SBool} }
func Le(a, b Term) Term                       { return Term{app("<=", a, b), SBool} }

func ArraySort(k, v Sort) Sort { return Sort(fmt.Sprintf("(Array %s %s)", k, v)) }

// ---------------------------------------------------------------------------
// Solver portfolio

type SolverResult struct {
	Status string // unsat | sat | unknown | timeout | error
	Solver string
	TimeS  float64
	Output string // raw output (first 64k)
	Model  map[string]string
	Replay *ReplayResult
}

// ReplayResult records a counterexample replayed against the real code.
type ReplayResult struct {
	Confirmed bool   `json:"confirmed"`
	TestFile  string `json:"test_file,omitempty"`
	Command   string `json:"command,omitempty"`
	Output    string `json:"output,omitempty"`
	Inputs    string `json:"inputs,omitempty"`
}

type solverSpec struct {
	name string
	args func(file string, timeoutS int) []string
}

var solvers = []solverSpec{
	{"z3-new", func(f string, t int) []string { return []string{"z3-new", fmt.Sprintf("-T:%d", t), f} }},
	{"z3", func(f string, t int) []string { return []string{"/usr/bin/z3", fmt.Sprintf("-T:%d", t), f} }},
	{"cvc5", func(f string, t int) []string {
		return []string{"cvc5", fmt.Sprintf("--tlimit=%d", t*1000), "--produce-models", f}
	}},
}

var solverSem = make(chan struct{}, 14)

// runPortfolio races the solvers on the query text; the first definite answer
// (unsat or sat) wins. If all say unknown/timeout the best non-answer is returned.
func runPortfolio(scratch, name, query string, getValues []string, timeoutS int, all bool) SolverResult {
	file := filepath.Join(scratch, sanitize(name)+".smt2")
	var full strings.Builder
	full.WriteString(query)
	full.WriteString("(check-sat)\n")
	if len(getValues) > 0 {
		// ask for values in chunks; harmless after unsat (error line ignored)
		for i := 0; i < len(getValues); i += 40 {
			j := i + 40
			if j > len(getValues) {
				j = len(getValues)
			}
			full.WriteString("(get-value (" + strings.Join(getValues[i:j], " ") + "))\n")
		}
	}
	if err := os.WriteFile(file, []byte(full.String()), 0644); err != nil {
		return SolverResult{Status: "error", Output: err.Error()}
	}
	ctx, cancel := context.WithCancel(context.Background())
	defer cancel()
	results := make(chan SolverResult, len(solvers))
	var wg sync.WaitGroup
	for _, sp := range solvers {
		wg.Add(1)
		go func(sp solverSpec) {
			defer wg.Done()
			solverSem <- struct{}{}
			defer func() { <-solverSem }()
			if ctx.Err() != nil {
				results <- SolverResult{Status: "cancelled", Solver: sp.name}
				return
			}
			args := sp.args(file, timeoutS)
			start := time.Now()
			cctx, ccancel := context.WithTimeout(ctx, time.Duration(timeoutS+2)*time.Second)
			defer ccancel()
			cmd := exec.CommandContext(cctx, args[0], args[1:]...)
			var out bytes.Buffer
			cmd.Stdout = &out
			cmd.Stderr = &out
			_ = cmd.Run()
			el := time.Since(start).Seconds()
			text := out.String()
			if len(text) > 1<<16 {
				text = text[:1<<16]
			}
			first := strings.TrimSpace(strings.SplitN(text, "\n", 2)[0])
			r := SolverResult{Solver: sp.name, TimeS: el, Output: text}
			switch {
			case first == "unsat":
				r.Status = "unsat"
			case first == "sat":
				r.Status = "sat"
				r.Model = parseGetValues(text)
			case first == "unknown":
				r.Status = "unknown"
				r.Model = parseGetValues(text)
			case first == "timeout" || cctx.Err() != nil:
				r.Status = "timeout"
			default:
				if strings.Contains(text, "timeout") || strings.Contains(text, "interrupted") {
					r.Status = "timeout"
				} else {
					r.Status = "error"
				}
			}
			results <- r
		}(sp)
	}
	go func() { wg.Wait(); close(results) }()
	var best SolverResult
	var definite []SolverResult
	rank := map[string]int{"": 0, "cancelled": 1, "error": 2, "timeout": 3, "unknown": 4}
	for r := range results {
		if r.Status == "unsat" || r.Status == "sat" {
			definite = append(definite, r)
			if !all {
				cancel()
				// drain
				go func() {
					for range results {
					}
				}()
				return r
			}
			continue
		}
		if rank[r.Status] > rank[best.Status] || best.Solver == "" {
			best = r
		}
	}
	if len(definite) > 0 {
		for _, d := range definite[1:] {
			if d.Status != definite[0].Status {
				return SolverResult{Status: "error", Solver: "portfolio",
					Output: fmt.Sprintf("solver disagreement: %s says %s, %s says %s", definite[0].Solver, definite[0].Status, d.Solver, d.Status)}
			}
		}
		return definite[0]
	}
	return best
}

func sanitize(s string) string {
	var b strings.Builder
	for _, r := range s {
		if (r >= 'a' && r <= 'z') || (r >= 'A' && r <= 'Z') || (r >= '0' && r <= '9') || r == '-' || r == '_' || r == '.' {
			b.WriteRune(r)
		} else {
			b.WriteRune('_')
		}
	}
	out := b.String()
	if len(out) > 120 {
		out = out[:120]
	}
	return out
}

// parseGetValues reads "((name value) (name value))" blocks following the status line.
func parseGetValues(out string) map[string]string {
	m := map[string]string{}
	idx := strings.Index(out, "\n")
	if idx < 0 {
		return m
	}
	text := out[idx+1:]
	toks := tokenizeSexp(text)
	pos := 0
	var parse func() interface{}
	parse = func() interface{} {
		if pos >= len(toks) {
			return nil
		}
		t := toks[pos]
		pos++
		if t == "(" {
			var list []interface{}
			for pos < len(toks) && toks[pos] != ")" {
				list = append(list, parse())
			}
			pos++
			return list
		}
		return t
	}
	for pos < len(toks) {
		v := parse()
		list, ok := v.([]interface{})
		if !ok {
			continue
		}
		for _, pair := range list {
			p, ok := pair.([]interface{})
			if !ok || len(p) != 2 {
				continue
			}
			m[sexpString(p[0])] = sexpString(p[1])
		}
	}
	return m
}

func sexpString(v interface{}) string {
	switch x := v.(type) {
	case string:
		return x
	case []interface{}:
		parts := make([]string, len(x))
		for i, e := range x {
			parts[i] = sexpString(e)
		}
		return "(" + strings.Join(parts, " ") + ")"
	}
	return ""
}

func tokenizeSexp(s string) []string {
	var toks []string
	i := 0
	for i < len(s) {
		c := s[i]
		switch {
		case c == '(' || c == ')':
			toks = append(toks, string(c))
			i++
		case c == ' ' || c == '\n' || c == '\t' || c == '\r':
			i++
		case c == '"':
			j := i + 1
			for j < len(s) && s[j] != '"' {
				j++
			}
			toks = append(toks, s[i:min(j+1, len(s))])
			i = j + 1
		case c == '|':
			j := i + 1
			for j < len(s) && s[j] != '|' {
				j++
			}
			toks = append(toks, s[i:min(j+1, len(s))])
			i = j + 1
		default:
			j := i
			for j < len(s) && !strings.ContainsRune("() \n\t\r", rune(s[j])) {
				j++
			}
			toks = append(toks, s[i:j])
			i = j
		}
	}
	return toks
}

// runSingle runs one solver (z3 5.x) on a small ground query.
func runSingle(scratch, name, query string, timeoutS int) SolverResult {
	file := filepath.Join(scratch, sanitize(name)+".smt2")
	if err := os.WriteFile(file, []byte(query+"(check-sat)\n"), 0644); err != nil {
		return SolverResult{Status: "error", Output: err.Error()}
	}
	start := time.Now()
	out, _ := exec.Command("z3-new", fmt.Sprintf("-T:%d", timeoutS), file).CombinedOutput()
	first := strings.TrimSpace(strings.SplitN(string(out), "\n", 2)[0])
	r := SolverResult{Solver: "z3-new", TimeS: time.Since(start).Seconds(), Output: string(out)}
	switch first {
	case "sat", "unsat", "unknown":
		r.Status = first
	default:
		r.Status = "error"
	}
	return r
}
