package main

import (
	"fmt"
	"go/types"
	"strings"

	"golang.org/x/tools/go/ssa"
)

// The trusted table: contracts ASSUMED for functions outside the repository.
// Every use is recorded in the evidence (Enc.trusted).

type extern struct {
	reason string
	apply  func(fr *Frame, v *ssa.Call, cc *ssa.CallCommon, args []Term, at Term, st *State) []Term
	writes func(fr *Frame, cc *ssa.CallCommon, ws map[string]bool)
}

var externs map[string]*extern

func init() {
	externs = map[string]*extern{
		"(time.Time).IsZero": {reason: "time.Time modelled as an integer instant; the zero Time is 0",
			apply: func(fr *Frame, v *ssa.Call, cc *ssa.CallCommon, a []Term, at Term, st *State) []Term {
				return []Term{Eq(a[0], IntLit(0))}
			}},
		"(time.Time).After": {reason: "time order is integer order on instants",
			apply: func(fr *Frame, v *ssa.Call, cc *ssa.CallCommon, a []Term, at Term, st *State) []Term {
				return []Term{Lt(a[1], a[0])}
			}},
		"(time.Time).Before": {reason: "time order is integer order on instants",
			apply: func(fr *Frame, v *ssa.Call, cc *ssa.CallCommon, a []Term, at Term, st *State) []Term {
				return []Term{Lt(a[0], a[1])}
			}},
		"(time.Time).Equal": {reason: "time equality is equality of instants",
			apply: func(fr *Frame, v *ssa.Call, cc *ssa.CallCommon, a []Term, at Term, st *State) []Term {
				return []Term{Term{app("=", a[0], a[1]), SBool}}
			}},
		"(time.Time).UTC": {reason: "UTC() does not change the instant",
			apply: func(fr *Frame, v *ssa.Call, cc *ssa.CallCommon, a []Term, at Term, st *State) []Term {
				return []Term{a[0]}
			}},
		"time.Now": {reason: "time.Now returns some non-zero instant",
			apply: func(fr *Frame, v *ssa.Call, cc *ssa.CallCommon, a []Term, at Term, st *State) []Term {
				t := fr.c.fresh("now", SInt)
				fr.c.assert(Lt(IntLit(0), t))
				return []Term{t}
			}},
		"(time.Time).Format": {reason: "Format(RFC3339Nano) is the uninterpreted injective fmtTime",
			apply: func(fr *Frame, v *ssa.Call, cc *ssa.CallCommon, a []Term, at Term, st *State) []Term {
				return []Term{fr.c.fmtTime(a[0])}
			}},
		"time.Parse": {reason: "Parse(RFC3339Nano, Format(t)) = t; otherwise some time or an error",
			apply: func(fr *Frame, v *ssa.Call, cc *ssa.CallCommon, a []Term, at Term, st *State) []Term {
				c := fr.c
				c.declareFun("parseTimeVal", []Sort{SInt}, SInt)
				c.declareFun("parseTimeOK", []Sort{SInt}, SBool)
				e := c.fresh("perr", SInt)
				ok := Term{app("parseTimeOK", a[1]), SBool}
				c.assert(Eq(Eq(e, IntLit(0)), ok))
				return []Term{Ite(ok, Term{app("parseTimeVal", a[1]), SInt}, IntLit(0)), e}
			}},
		"strings.Join": {reason: "strings.Join returns some string (content not interpreted)",
			apply: func(fr *Frame, v *ssa.Call, cc *ssa.CallCommon, a []Term, at Term, st *State) []Term {
				return []Term{fr.c.fresh("joined", SInt)}
			}},
		"strings.TrimSpace": {reason: "TrimSpace is idempotent, maps \"\" to \"\" and never lengthens",
			apply: func(fr *Frame, v *ssa.Call, cc *ssa.CallCommon, a []Term, at Term, st *State) []Term {
				return []Term{fr.c.trimSpace(a[0])}
			}},
		"errors.New": {reason: "errors.New returns a fresh non-nil error",
			apply: func(fr *Frame, v *ssa.Call, cc *ssa.CallCommon, a []Term, at Term, st *State) []Term {
				c := fr.c
				e := c.fresh("err", SInt)
				c.declareFun("errMsg", []Sort{SInt}, SInt)
				c.assert(And(Not(Eq(e, IntLit(0))), Eq(Term{app("errMsg", e), SInt}, a[0])))
				return []Term{e}
			}},
		"fmt.Errorf": {reason: "fmt.Errorf returns a fresh non-nil error",
			apply: func(fr *Frame, v *ssa.Call, cc *ssa.CallCommon, a []Term, at Term, st *State) []Term {
				c := fr.c
				e := c.fresh("err", SInt)
				c.assert(Not(Eq(e, IntLit(0))))
				return []Term{e}
			},
			writes: func(fr *Frame, cc *ssa.CallCommon, ws map[string]bool) {}},
		"fmt.Sprintf": {reason: "fmt.Sprintf returns some string; with a constant format and pointer-free operands it is a deterministic (uninterpreted) function of the format and the operand values",
			apply: func(fr *Frame, v *ssa.Call, cc *ssa.CallCommon, a []Term, at Term, st *State) []Term {
				if t, ok := fr.sprintfTerm(cc, a, st); ok {
					return []Term{t}
				}
				return []Term{fr.c.fresh("sprintf", SInt)}
			}},
		"crypto/sha256.Sum256": {reason: "sha256.Sum256 is a deterministic (uninterpreted) function of the bytes",
			apply: func(fr *Frame, v *ssa.Call, cc *ssa.CallCommon, a []Term, at Term, st *State) []Term {
				return []Term{fr.c.sha256Of(fr.c.bytesContent(st, a[0]))}
			}},
		"invoke:ModTime": {reason: "FileInfo.ModTime is some instant determined by the file information",
			apply: func(fr *Frame, v *ssa.Call, cc *ssa.CallCommon, a []Term, at Term, st *State) []Term {
				fr.c.declareFun("fiModTime", []Sort{SAny}, SInt)
				return []Term{Term{app("fiModTime", fr.val(cc.Value)), SInt}}
			}},
		"invoke:Error": {reason: "err.Error() is the uninterpreted message of the error value",
			apply: func(fr *Frame, v *ssa.Call, cc *ssa.CallCommon, a []Term, at Term, st *State) []Term {
				c := fr.c
				c.declareFun("errMsg", []Sort{SInt}, SInt)
				return []Term{Term{app("errMsg", fr.val(cc.Value)), SInt}}
			}},
		"encoding/json.Marshal": {reason: "json.Marshal returns fresh bytes whose content is jsonEnc(v); it does not fail on the payload structs of this package (string fields only)",
			apply: func(fr *Frame, v *ssa.Call, cc *ssa.CallCommon, a []Term, at Term, st *State) []Term {
				c := fr.c
				arr := c.allocRef(st)
				heap, _ := c.elemHeap(types.Typ[types.Uint8])
				inner := c.fresh("json", ArraySort(SInt, SInt))
				c.set(st, heap, Store(c.get(st, heap), arr, inner))
				ln := c.fresh("jsonlen", SInt)
				c.assert(Le(IntLit(0), ln))
				sl := Term{app("mk-slice", arr, IntLit(0), ln, ln), SSlice}
				e := c.fresh("jerr", SInt)
				c.assume(at, Implies(Eq(e, IntLit(0)), Eq(c.bytesContent(st, sl), c.jsonEnc(a[0]))))
				return []Term{sl, e}
			},
			writes: func(fr *Frame, cc *ssa.CallCommon, ws map[string]bool) {
				h, _ := fr.c.elemHeap(types.Typ[types.Uint8])
				ws[h] = true
				ws["nextRef"] = true
			}},
		"encoding/json.Unmarshal": {reason: "json.Unmarshal succeeds iff jsonDecOK_T(content) and then stores jsonDec_T(content) in the target; on failure the target is unspecified",
			apply: func(fr *Frame, v *ssa.Call, cc *ssa.CallCommon, a []Term, at Term, st *State) []Term {
				c := fr.c
				mi, ok := cc.Args[1].(*ssa.MakeInterface)
				if !ok {
					c.errorf("%s: json.Unmarshal target is not an address literal", funcKey(fr.fn))
					return []Term{c.fresh("jerr", SInt)}
				}
				st2, ok := isStructPtr(mi.X.Type())
				if !ok {
					c.errorf("%s: json.Unmarshal into non-struct %s", funcKey(fr.fn), mi.X.Type())
					return []Term{c.fresh("jerr", SInt)}
				}
				content := c.bytesContent(st, a[0])
				dec, okT := c.jsonDec(st2, content)
				e := c.fresh("jerr", SInt)
				c.assert(Eq(Eq(e, IntLit(0)), okT))
				if pl, isCell := fr.places[mi.X]; isCell && pl.Kind == "cell" {
					junk := c.fresh("junk", dec.Sort)
					c.set(st, pl.Heap, Ite(okT, dec, junk))
					return []Term{e}
				}
				ref := fr.val(mi.X)
				si := c.structInfoOf(st2)
				for i, f := range si.fields {
					heap, _, _ := c.fieldHeap(st2, i)
					fv := Term{app(string(si.sort)+"_"+f.name, dec), f.sort}
					junk := c.fresh("junk", f.sort)
					c.set(st, heap, Store(c.get(st, heap), ref, Ite(okT, fv, junk)))
				}
				return []Term{e}
			},
			writes: func(fr *Frame, cc *ssa.CallCommon, ws map[string]bool) {
				if mi, ok := cc.Args[1].(*ssa.MakeInterface); ok {
					if al, isAl := mi.X.(*ssa.Alloc); isAl && localStructAlloc(al) {
						name := fr.localCellName(al)
						fr.c.cellVar(name, al.Type().Underlying().(*types.Pointer).Elem())
						ws[name] = true
						return
					}
					if st2, ok := isStructPtr(mi.X.Type()); ok {
						si := fr.c.structInfoOf(st2)
						for i := range si.fields {
							h, _, _ := fr.c.fieldHeap(st2, i)
							ws[h] = true
						}
					}
				}
			}},
		"syscall.Open": {reason: "open(2) returns a descriptor or an error; opening read-only changes no file",
			apply: func(fr *Frame, v *ssa.Call, cc *ssa.CallCommon, a []Term, at Term, st *State) []Term {
				c := fr.c
				return []Term{c.fresh("fd", SInt), c.fresh("oerr", SInt)}
			}},
		"syscall.Close": {reason: "close(2); closing the lock descriptor releases a flock held through it",
			apply: func(fr *Frame, v *ssa.Call, cc *ssa.CallCommon, a []Term, at Term, st *State) []Term {
				return []Term{fr.c.fresh("cerr", SInt)}
			}},
		"syscall.Flock": {reason: "flock(2): LOCK_EX is granted to at most one open file description at a time, LOCK_NB makes the call fail with EWOULDBLOCK instead of waiting, LOCK_UN releases",
			apply: func(fr *Frame, v *ssa.Call, cc *ssa.CallCommon, a []Term, at Term, st *State) []Term {
				c := fr.c
				how := a[1]
				lk, ok1 := c.ghostCell("lk")
				ep, ok2 := c.ghostCell("epoch")
				bl, ok3 := c.ghostCell("blocking")
				e := c.fresh("flockerr", SInt)
				if !(ok1 && ok2 && ok3) {
					c.errorf("syscall.Flock needs ghost variables lk, epoch, blocking")
					return []Term{e}
				}
				un := bitSet(how, 8)
				nb := bitSet(how, 4)
				ex := bitSet(how, 2)
				sh := bitSet(how, 1)
				curLk, curEp, curBl := c.get(st, lk), c.get(st, ep), c.get(st, bl)
				okT := Eq(e, IntLit(0))
				newLk := Ite(un, IntLit(0), Ite(okT, Ite(ex, IntLit(2), Ite(sh, IntLit(1), curLk)), curLk))
				newEp := Ite(And(Not(un), okT), Add(curEp, IntLit(1)), curEp)
				newBl := Or(curBl, And(Not(un), Not(nb)))
				c.set(st, lk, newLk)
				c.set(st, ep, newEp)
				c.set(st, bl, newBl)
				return []Term{e}
			},
			writes: func(fr *Frame, cc *ssa.CallCommon, ws map[string]bool) {
				for _, g := range []string{"lk", "epoch", "blocking"} {
					if cell, ok := fr.c.ghostCell(g); ok {
						ws[cell] = true
					}
				}
			}},
		"os.IsNotExist": {reason: "a predicate on the error value",
			apply: func(fr *Frame, v *ssa.Call, cc *ssa.CallCommon, a []Term, at Term, st *State) []Term {
				fr.c.declareFun("osIsNotExist", []Sort{SInt}, SBool)
				return []Term{Term{app("osIsNotExist", a[0]), SBool}}
			}},
		"errors.Is": {reason: "errors.Is is a reflexive relation on error values (wrapping is not interpreted)",
			apply: func(fr *Frame, v *ssa.Call, cc *ssa.CallCommon, a []Term, at Term, st *State) []Term {
				c := fr.c
				c.declareFun("errIs", []Sort{SInt, SInt}, SBool)
				r := Term{app("errIs", a[0], a[1]), SBool}
				c.assert(Implies(Eq(a[0], a[1]), r))
				c.assert(Implies(Eq(a[0], IntLit(0)), Eq(r, Eq(a[1], IntLit(0)))))
				return []Term{r}
			}},
		"os.Stat": {reason: "stat(2): succeeds exactly when the path exists (permission and I/O faults excluded); changes nothing",
			apply: func(fr *Frame, v *ssa.Call, cc *ssa.CallCommon, a []Term, at Term, st *State) []Term {
				c := fr.c
				e := c.fresh("staterr", SInt)
				if cell, ok := c.ghostCell("fsExists"); ok {
					c.assert(Eq(Eq(e, IntLit(0)), Select(c.get(st, cell), a[0], SBool)))
				}
				return []Term{c.fresh("finfo", SAny), e}
			}},
		"invoke:IsDir": {reason: "FileInfo.IsDir is a predicate on the file information",
			apply: func(fr *Frame, v *ssa.Call, cc *ssa.CallCommon, a []Term, at Term, st *State) []Term {
				fr.c.declareFun("fiIsDir", []Sort{SAny}, SBool)
				return []Term{Term{app("fiIsDir", fr.val(cc.Value)), SBool}}
			}},
		"os.MkdirAll": {reason: "mkdir -p: creates directories, never touches an existing regular file",
			apply: func(fr *Frame, v *ssa.Call, cc *ssa.CallCommon, a []Term, at Term, st *State) []Term {
				c := fr.c
				e := c.fresh("mkerr", SInt)
				if cell, ok := c.ghostCell("fsExists"); ok {
					cur := c.get(st, cell)
					c.set(st, cell, Ite(Eq(e, IntLit(0)), Store(cur, a[0], True), cur))
				}
				return []Term{e}
			},
			writes: func(fr *Frame, cc *ssa.CallCommon, ws map[string]bool) {
				if cell, ok := fr.c.ghostCell("fsExists"); ok {
					ws[cell] = true
				}
			}},
		"os.Getwd": {reason: "returns the working directory or an error",
			apply: func(fr *Frame, v *ssa.Call, cc *ssa.CallCommon, a []Term, at Term, st *State) []Term {
				return []Term{fr.c.fresh("wd", SInt), fr.c.fresh("wderr", SInt)}
			}},
		"os.WriteFile": {reason: "os.WriteFile creates or truncates the named file and writes the data (ghost effect: fsWrites counts writes outside the log primitives)",
			apply: func(fr *Frame, v *ssa.Call, cc *ssa.CallCommon, a []Term, at Term, st *State) []Term {
				c := fr.c
				if cell, ok := c.ghostCell("fsWrites"); ok {
					c.set(st, cell, Add(c.get(st, cell), IntLit(1)))
				}
				e := c.fresh("werr", SInt)
				if cell, ok := c.ghostCell("fsExists"); ok {
					cur := c.get(st, cell)
					c.set(st, cell, Ite(Eq(e, IntLit(0)), Store(cur, a[0], True), cur))
				}
				return []Term{e}
			},
			writes: func(fr *Frame, cc *ssa.CallCommon, ws map[string]bool) {
				for _, g := range []string{"fsWrites", "fsExists"} {
					if cell, ok := fr.c.ghostCell(g); ok {
						ws[cell] = true
					}
				}
			}},
		"fmt.Println":  {reason: "fmt.Println writes one text line to stdout (ghost counter stdoutText)", apply: applyStdoutText, writes: writesStdoutText},
		"fmt.Printf":   {reason: "fmt.Printf writes text to stdout (ghost counter stdoutText)", apply: applyStdoutText, writes: writesStdoutText},
		"fmt.Print":    {reason: "fmt.Print writes text to stdout (ghost counter stdoutText)", apply: applyStdoutText, writes: writesStdoutText},
		"fmt.Fprintln": {reason: "fmt.Fprintln writes text to its writer; os.Stdout bumps stdoutText, os.Stderr bumps stderrText", apply: applyFprint, writes: writesStdoutText},
		"fmt.Fprintf":  {reason: "fmt.Fprintf writes text to its writer; os.Stdout bumps stdoutText, os.Stderr bumps stderrText", apply: applyFprint, writes: writesStdoutText},
		"fmt.Fprint":   {reason: "fmt.Fprint writes text to its writer; os.Stdout bumps stdoutText, os.Stderr bumps stderrText", apply: applyFprint, writes: writesStdoutText},
		"sort.Strings": {reason: "sort.Strings permutes the slice into ascending order",
			apply: applySortStrings,
			writes: func(fr *Frame, cc *ssa.CallCommon, ws map[string]bool) {
				h, _ := fr.c.elemHeap(types.Typ[types.String])
				ws[h] = true
			}},
		"sort.Slice": {reason: "sort.Slice permutes the slice so that less(j,i) is false for i<j (not stable)",
			apply: applySortSlice,
			writes: func(fr *Frame, cc *ssa.CallCommon, ws map[string]bool) {
				if mi, ok := cc.Args[0].(*ssa.MakeInterface); ok {
					if sl, ok := mi.X.Type().Underlying().(*types.Slice); ok {
						h, _ := fr.c.elemHeap(sl.Elem())
						ws[h] = true
					}
				}
			}},
	}
}

// ghostCell returns the heap cell of a ghost variable declared in the contract file.
func (c *Enc) ghostCell(name string) (string, bool) {
	g, ok := c.eng.cf.Ghosts[name]
	if !ok {
		return "", false
	}
	if g.Type == "pathset" {
		// a set of path strings (which files exist)
		c.heapVar("G_"+name, ArraySort(SInt, SBool))
		return "G_" + name, true
	}
	ty, err := c.eng.resolveType(g.Type)
	if err != nil {
		return "", false
	}
	return c.cellVar("G_"+name, ty), true
}

func (c *Enc) trimSpace(s Term) Term {
	c.declareFun("uf_trimSpace", []Sort{SInt}, SInt)
	r := Term{app("uf_trimSpace", s), SInt}
	c.trusted["strings.TrimSpace"] = "TrimSpace is idempotent, maps \"\" to \"\" and never lengthens"
	if strings.Contains(s.S, "!q") {
		return r // under a binder: no ground instance of the axioms
	}
	c.assert(And(Eq(Term{app("uf_trimSpace", r), SInt}, r),
		Le(Term{app("strLen", r), SInt}, Term{app("strLen", s), SInt}),
		Le(IntLit(0), r),
		Implies(Eq(s, IntLit(0)), Eq(r, IntLit(0)))))
	c.trusted["strings.TrimSpace"] = "TrimSpace is idempotent, maps \"\" to \"\" and never lengthens"
	return r
}

// jsonEnc(any): the bytes encoding/json.Marshal produces, as an abstract string value. For a boxed
// payload struct the round trip through Unmarshal is instantiated on this very term.
func (c *Enc) jsonEnc(v Term) Term {
	c.declareFun("jsonEnc", []Sort{SAny}, SInt)
	r := Term{app("jsonEnc", v), SInt}
	if strings.HasPrefix(v.S, "(box_") && !c.jsonSeen[r.S] {
		if c.jsonSeen == nil {
			c.jsonSeen = map[string]bool{}
		}
		c.jsonSeen[r.S] = true
		key := strings.TrimPrefix(strings.SplitN(v.S, " ", 2)[0], "(box_")
		if ty, ok := c.boxTypes[key]; ok {
			if _, isStruct := ty.Underlying().(*types.Struct); isStruct && !strings.Contains(v.S, "!q") {
				dec, okT := c.jsonDec(ty, r)
				payload := Term{app("unbox_"+key, v), c.sortOf(ty)}
				c.assert(And(okT, Eq(dec, payload)))
				c.trusted["encoding/json round trip"] = "json.Unmarshal(json.Marshal(x)) = x for the flat string payload structs (valid UTF-8 strings)"
			}
		}
	}
	return r
}

func (c *Enc) jsonDec(ty types.Type, s Term) (Term, Term) {
	name := structName(ty)
	rs := c.sortOf(ty)
	c.declareFun("jsonDec_"+name, []Sort{SInt}, rs)
	c.declareFun("jsonDecOK_"+name, []Sort{SInt}, SBool)
	return Term{app("jsonDec_"+name, s), rs}, Term{app("jsonDecOK_"+name, s), SBool}
}

func (c *Enc) fmtTime(t Term) Term {
	c.declareFun("fmtTime", []Sort{SInt}, SInt)
	c.declareFun("parseTimeVal", []Sort{SInt}, SInt)
	c.declareFun("parseTimeOK", []Sort{SInt}, SBool)
	r := Term{app("fmtTime", t), SInt}
	c.trusted["time.Format/Parse"] = "time.Parse(RFC3339Nano, t.UTC().Format(RFC3339Nano)) returns an Equal time"
	if strings.Contains(t.S, "!q") {
		return r
	}
	// round trip, instantiated on this term
	c.assert(And(Term{app("parseTimeOK", r), SBool}, Eq(Term{app("parseTimeVal", r), SInt}, t), Not(Eq(r, IntLit(0)))))
	c.trusted["time.Format/Parse"] = "time.Parse(RFC3339Nano, t.UTC().Format(RFC3339Nano)) returns an Equal time"
	return r
}

func (fr *Frame) encodeExtern(v *ssa.Call, cc *ssa.CallCommon, args []Term, at Term, st *State) {
	c := fr.c
	name := externName(cc)
	if ex, ok := externs[name]; ok {
		c.trusted[name] = ex.reason
		res := ex.apply(fr, v, cc, args, at, st)
		if v != nil && res != nil {
			fr.setResultsRaw(v, res)
		}
		return
	}
	// variadic string functions (filepath.Join, ...): a deterministic function of the element values
	if callee := cc.StaticCallee(); callee != nil && callee.Pkg != nil && callee.Signature.Variadic() {
		pkg := callee.Pkg.Pkg.Path()
		if (pkg == "path/filepath" || pkg == "strings") && len(cc.Args) == 1 {
			if sl, ok := cc.Args[0].(*ssa.Slice); ok {
				if al, ok := sl.X.(*ssa.Alloc); ok {
					if arr, ok := al.Type().Underlying().(*types.Pointer).Elem().Underlying().(*types.Array); ok {
						heap, es := c.elemHeap(arr.Elem())
						inner := Select(c.get(st, heap), fr.val(al), ArraySort(SInt, es))
						var elems []Term
						var sorts []Sort
						for i := int64(0); i < arr.Len(); i++ {
							elems = append(elems, Select(inner, IntLit(i), es))
							sorts = append(sorts, es)
						}
						fn := fmt.Sprintf("ext_%s_%d", sanitize(callee.String()), arr.Len())
						rs := c.sortOf(cc.Signature().Results().At(0).Type())
						c.declareFun(fn, sorts, rs)
						c.trusted[name] = "deterministic function of its arguments (uninterpreted)"
						if v != nil {
							fr.setResultsRaw(v, []Term{{app(fn, elems...), rs}})
						}
						return
					}
				}
			}
		}
	}
	// generic pure scalar functions of string-ish packages
	if callee := cc.StaticCallee(); callee != nil && callee.Pkg != nil {
		pkg := callee.Pkg.Pkg.Path()
		if pkg == "strings" || pkg == "strconv" || pkg == "path/filepath" || pkg == "unicode" || pkg == "unicode/utf8" {
			if res, ok := fr.pureScalar(callee, cc, args); ok {
				c.trusted[name] = "deterministic function of its arguments (uninterpreted)"
				if v != nil {
					fr.setResultsRaw(v, res)
				}
				return
			}
		}
	}
	// an ASSUMED contract written in the contract file for a function of another package
	if callee := cc.StaticCallee(); callee != nil {
		if fc := c.eng.cf.Funcs[name]; fc != nil {
			if fc.Trusted == "" {
				c.errorf("%s: the contract of external function %s must be marked trusted", funcKey(fr.fn), name)
			}
			res := fr.applyContract(callee, fc, nil, cc, args, at, st)
			if v != nil {
				fr.setResultsRaw(v, res)
			}
			return
		}
	}
	c.errorf("%s: external function %s has no entry in the trusted table", funcKey(fr.fn), name)
	if v != nil {
		sig := cc.Signature()
		res := make([]Term, sig.Results().Len())
		for i := range res {
			res[i] = c.fresh("ext", c.sortOf(sig.Results().At(i).Type()))
		}
		fr.setResultsRaw(v, res)
	}
}

func (fr *Frame) pureScalar(callee *ssa.Function, cc *ssa.CallCommon, args []Term) ([]Term, bool) {
	c := fr.c
	var sorts []Sort
	for _, a := range args {
		if a.Sort != SInt && a.Sort != SBool {
			return nil, false
		}
		sorts = append(sorts, a.Sort)
	}
	sig := cc.Signature()
	var out []Term
	for i := 0; i < sig.Results().Len(); i++ {
		rs := c.sortOf(sig.Results().At(i).Type())
		if rs != SInt && rs != SBool {
			return nil, false
		}
		fn := fmt.Sprintf("ext_%s_%d", sanitize(callee.String()), i)
		c.declareFun(fn, sorts, rs)
		out = append(out, Term{app(fn, args...), rs})
	}
	return out, true
}

// sortedness + permutation (with explicit bijection witnesses)
func (c *Enc) permutation(at Term, oldInner, newInner Term, off, ln Term, es Sort) {
	// same element set
	c.assume(at, Eq(c.elemsOf(newInner, off, ln, es), c.elemsOf(oldInner, off, ln, es)))
	c.n++
	{
		i := fmt.Sprintf("po!%d", c.n)
		// outside the window nothing changes
		c.assume(at, Term{fmt.Sprintf("(forall ((%s Int)) (! (=> (or (< %s %s) (>= %s (+ %s %s))) (= (select %s %s) (select %s %s))) :pattern ((select %s %s))))",
			i, i, off.S, i, off.S, ln.S, newInner.S, i, oldInner.S, i, newInner.S, i), SBool})
	}
	if !c.option("sort-perm") {
		return
	}
	c.n++
	p := fmt.Sprintf("perm!%d", c.n)
	q := fmt.Sprintf("perminv!%d", c.n)
	c.declareFun(p, []Sort{SInt}, SInt)
	c.declareFun(q, []Sort{SInt}, SInt)
	i := fmt.Sprintf("pi!%d", c.n)
	hi := Add(off, ln)
	// absolute positions: new[p] = old[perm(p)], old[p] = new[perminv(p)], perm and perminv inverse on the window
	c.assume(at, Term{fmt.Sprintf("(forall ((%s Int)) (! (=> (and (<= %s %s) (< %s %s)) (and (<= %s (%s %s)) (< (%s %s) %s) (= (%s (%s %s)) %s) (= (select %s %s) (select %s (%s %s))))) :pattern ((select %s %s))))",
		i, off.S, i, i, hi.S, off.S, p, i, p, i, hi.S, q, p, i, i, newInner.S, i, oldInner.S, p, i, newInner.S, i), SBool})
	c.assume(at, Term{fmt.Sprintf("(forall ((%s Int)) (! (=> (and (<= %s %s) (< %s %s)) (and (<= %s (%s %s)) (< (%s %s) %s) (= (%s (%s %s)) %s) (= (select %s %s) (select %s (%s %s))))) :pattern ((select %s %s))))",
		i, off.S, i, i, hi.S, off.S, q, i, q, i, hi.S, p, q, i, i, oldInner.S, i, newInner.S, q, i, oldInner.S, i), SBool})
}

func applySortStrings(fr *Frame, v *ssa.Call, cc *ssa.CallCommon, a []Term, at Term, st *State) []Term {
	c := fr.c
	s := a[0]
	heap, es := c.elemHeap(types.Typ[types.String])
	innerSort := ArraySort(SInt, es)
	h := c.get(st, heap)
	oldInner := Select(h, slArr(s), innerSort)
	newInner := c.fresh("sorted", innerSort)
	c.permutation(at, oldInner, newInner, slOff(s), slLen(s), es)
	c.n++
	i, j := fmt.Sprintf("si!%d", c.n), fmt.Sprintf("sj!%d", c.n)
	c.assume(at, mkQuant("forall", []Term{{i, SInt}, {j, SInt}},
		fmt.Sprintf("(=> (and (<= 0 %s) (< %s %s) (< %s %s)) (<= (select %s (idx %s %s)) (select %s (idx %s %s))))", i, i, j, j, slLen(s).S, newInner.S, slOff(s).S, i, newInner.S, slOff(s).S, j),
		[]string{fmt.Sprintf(":pattern ((select %s (idx %s %s)) (select %s (idx %s %s)))", newInner.S, slOff(s).S, i, newInner.S, slOff(s).S, j)}))
	// the nil slice has no backing array to change
	c.set(st, heap, Ite(Eq(slArr(s), IntLit(0)), h, Store(h, slArr(s), newInner)))
	return nil
}

// applySortSlice: the comparator must be a closure with a contract of the shape
//
//	ensures [less] ret <==> E(i, j)
func applySortSlice(fr *Frame, v *ssa.Call, cc *ssa.CallCommon, a []Term, at Term, st *State) []Term {
	c := fr.c
	mi, ok := cc.Args[0].(*ssa.MakeInterface)
	if !ok {
		c.errorf("%s: sort.Slice on a non-literal interface", funcKey(fr.fn))
		return nil
	}
	slT, ok := mi.X.Type().Underlying().(*types.Slice)
	if !ok {
		c.errorf("%s: sort.Slice on non-slice", funcKey(fr.fn))
		return nil
	}
	mc, ok := cc.Args[1].(*ssa.MakeClosure)
	if !ok {
		c.errorf("%s: sort.Slice comparator is not a closure literal", funcKey(fr.fn))
		return nil
	}
	cmp := mc.Fn.(*ssa.Function)
	fc := c.eng.cf.Funcs[funcKey(cmp)]
	var lessExpr *Expr
	if fc != nil {
		for _, cl := range fc.clauses("ensures") {
			if cl.Label == "less" && cl.Expr.Op == "binary" && cl.Expr.Name == "<==>" && cl.Expr.Args[0].Op == "ident" && cl.Expr.Args[0].Name == "ret" {
				lessExpr = cl.Expr.Args[1]
			}
		}
	}
	if lessExpr == nil {
		c.errorf("%s: comparator %s needs a contract clause `ensures [less] ret <==> E`", funcKey(fr.fn), funcKey(cmp))
		return nil
	}
	c.callees[funcKey(cmp)] = true
	// the comparator's preconditions other than the index range (which sort.Slice guarantees) must hold here
	c.callSeq[funcKey(cmp)]++
	for _, cl := range fc.clauses("requires") {
		if cl.Label == "idx" {
			continue
		}
		x := &EvalCtx{c: c, fr: fr, st: st, old: st, vars: map[string]TV{}}
		x.resolve = func(name string, xc *EvalCtx) (TV, bool) {
			for k, fv := range cmp.FreeVars {
				if fv.Name() == name && k < len(mc.Bindings) {
					pl := fr.place(mc.Bindings[k])
					return TV{fr.load(pl, xc.st), pl.Type}, true
				}
			}
			return TV{}, false
		}
		if g, ok := x.evalBool(cl.Expr); ok {
			c.oblige(fmt.Sprintf("%s/call:%s#%d[%s]", funcKey(c.top), funcKey(cmp), c.callSeq[funcKey(cmp)], cl.Label), "requires", at, g, cl.Text)
		}
	}
	s := fr.val(mi.X)
	heap, es := c.elemHeap(slT.Elem())
	innerSort := ArraySort(SInt, es)
	h := c.get(st, heap)
	preSort := st.clone()
	oldInner := Select(h, slArr(s), innerSort)
	newInner := c.fresh("sorted", innerSort)
	c.permutation(at, oldInner, newInner, slOff(s), slLen(s), es)
	c.set(st, heap, Ite(Eq(slArr(s), IntLit(0)), h, Store(h, slArr(s), newInner)))
	// evaluate E in the post state with i, j bound
	evalLess := func(cur *State, iv, jv Term) (Term, bool) {
		x := &EvalCtx{c: c, fr: fr, st: cur, old: cur, vars: map[string]TV{
			cmp.Params[0].Name(): {iv, tyInt}, cmp.Params[1].Name(): {jv, tyInt}}}
		x.resolve = func(name string, xc *EvalCtx) (TV, bool) {
			for k, fv := range cmp.FreeVars {
				if fv.Name() == name && k < len(mc.Bindings) {
					pl := fr.place(mc.Bindings[k])
					return TV{fr.load(pl, xc.st), pl.Type}, true
				}
			}
			return TV{}, false
		}
		return x.evalBool(lessExpr)
	}
	c.n++
	i, j := Term{fmt.Sprintf("si!%d", c.n), SInt}, Term{fmt.Sprintf("sj!%d", c.n), SInt}
	// sort.Slice requires the captured slice variable to be the sorted slice: less reads the post state
	if lt, ok := evalLess(st, j, i); ok {
		pat := fmt.Sprintf(":pattern ((select %s (idx %s %s)) (select %s (idx %s %s)))", newInner.S, slOff(s).S, i.S, newInner.S, slOff(s).S, j.S)
		c.assume(at, mkQuant("forall", []Term{i, j}, fmt.Sprintf("(=> (and (<= 0 %s) (< %s %s) (< %s %s)) (not %s))", i.S, i.S, j.S, j.S, slLen(s).S, lt.S), []string{pat}))
	}
	// determinism side condition (strict weak order that is total on distinct positions) is a separate,
	// named obligation so that properties can opt in: <fn>/sort#k[total-order]
	c.sortSeq++
	if ltij, ok := evalLess(preSort, i, j); ok {
		ltji, _ := evalLess(preSort, j, i)
		goal := mkQuant("forall", []Term{i, j}, fmt.Sprintf("(=> (and (<= 0 %s) (< %s %s) (< %s %s)) (or %s %s))", i.S, i.S, j.S, j.S, slLen(s).S, ltij.S, ltji.S), nil)
		c.sortTotal = append(c.sortTotal, sortObl{name: fmt.Sprintf("%s/sort#%d[total-order]", funcKey(c.top), c.sortSeq), guard: at, goal: goal,
			nAsserts: len(c.asserts), cmp: funcKey(cmp), blk: c.curBlk})
	}
	return nil
}

type sortObl struct {
	name     string
	guard    Term
	goal     Term
	nAsserts int
	cmp      string
	blk      *ssa.BasicBlock
}

var _ = strings.TrimSpace

func bumpGhost(fr *Frame, st *State, name string) {
	c := fr.c
	if cell, ok := c.ghostCell(name); ok {
		c.set(st, cell, Add(c.get(st, cell), IntLit(1)))
	}
}

func applyStdoutText(fr *Frame, v *ssa.Call, cc *ssa.CallCommon, a []Term, at Term, st *State) []Term {
	bumpGhost(fr, st, "stdoutText")
	return printResults(fr, cc)
}

func printResults(fr *Frame, cc *ssa.CallCommon) []Term {
	sig := cc.Signature()
	res := make([]Term, sig.Results().Len())
	for i := range res {
		res[i] = fr.c.fresh("pr", fr.c.sortOf(sig.Results().At(i).Type()))
	}
	return res
}

// writerTarget: "stdout", "stderr" or "" for the io.Writer argument of a Fprint* call.
func writerTarget(v ssa.Value) string {
	mi, ok := v.(*ssa.MakeInterface)
	if !ok {
		return ""
	}
	load, ok := mi.X.(*ssa.UnOp)
	if !ok {
		return ""
	}
	g, ok := load.X.(*ssa.Global)
	if !ok || g.Pkg == nil || g.Pkg.Pkg.Path() != "os" {
		return ""
	}
	switch g.Name() {
	case "Stdout":
		return "stdout"
	case "Stderr":
		return "stderr"
	}
	return ""
}

func applyFprint(fr *Frame, v *ssa.Call, cc *ssa.CallCommon, a []Term, at Term, st *State) []Term {
	switch writerTarget(cc.Args[0]) {
	case "stdout":
		bumpGhost(fr, st, "stdoutText")
	case "stderr":
		bumpGhost(fr, st, "stderrText")
	default:
		// an arbitrary writer (strings.Builder, parameter): counted as possible stdout text unless proven otherwise
		bumpGhost(fr, st, "otherText")
	}
	return printResults(fr, cc)
}

func writesStdoutText(fr *Frame, cc *ssa.CallCommon, ws map[string]bool) {
	name := "stdoutText"
	if callee := cc.StaticCallee(); callee != nil && strings.HasPrefix(callee.Name(), "Fprint") && len(cc.Args) > 0 {
		switch writerTarget(cc.Args[0]) {
		case "stdout":
			name = "stdoutText"
		case "stderr":
			name = "stderrText"
		default:
			name = "otherText"
		}
	}
	if cell, ok := fr.c.ghostCell(name); ok {
		ws[cell] = true
	}
}

// sha256Of is the uninterpreted digest of a byte content.
func (c *Enc) sha256Of(content Term) Term {
	c.declareFun("sha256Of", []Sort{SInt}, SInt)
	return Term{app("sha256Of", content), SInt}
}

var tySha256 = types.NewArray(types.Universe.Lookup("byte").Type(), 32)

// sha256Hex is fmt.Sprintf("%x", sha256.Sum256(bytes)) written with the same uninterpreted functions the
// code's calls are translated to.
func (c *Enc) sha256Hex(content Term) Term {
	c.declareFun("ext_fmt.Sprintf_1", []Sort{SInt, SAny}, SInt)
	boxed := Term{app(c.boxCtor(tySha256), c.sha256Of(content)), SAny}
	return Term{app("ext_fmt.Sprintf_1", c.strLit("%x"), boxed), SInt}
}

// pointerFree reports whether values of t contain no references into mutable storage (so that formatting
// them depends on the value alone).
func pointerFree(t types.Type) bool {
	switch u := t.Underlying().(type) {
	case *types.Basic:
		return u.Kind() != types.UnsafePointer
	case *types.Array:
		return pointerFree(u.Elem())
	}
	return false
}

// sprintfTerm translates fmt.Sprintf(<constant format>, operands...) with pointer-free operands into an
// uninterpreted function of the format and the boxed operand values.
func (fr *Frame) sprintfTerm(cc *ssa.CallCommon, a []Term, st *State) (Term, bool) {
	c := fr.c
	if len(cc.Args) != 2 {
		return Term{}, false
	}
	if k, ok := cc.Args[0].(*ssa.Const); !ok || k.Value == nil {
		return Term{}, false
	}
	sl, ok := cc.Args[1].(*ssa.Slice)
	if !ok {
		return Term{}, false
	}
	al, ok := sl.X.(*ssa.Alloc)
	if !ok {
		return Term{}, false
	}
	arr, ok := al.Type().Underlying().(*types.Pointer).Elem().Underlying().(*types.Array)
	if !ok || arr.Len() == 0 || arr.Len() > 4 {
		return Term{}, false
	}
	// every stored operand must be a boxed pointer-free value
	stores := 0
	for _, r := range *al.Referrers() {
		switch x := r.(type) {
		case *ssa.IndexAddr:
			for _, r2 := range *x.Referrers() {
				stv, ok := r2.(*ssa.Store)
				if !ok {
					return Term{}, false
				}
				mi, ok := stv.Val.(*ssa.MakeInterface)
				if !ok || !pointerFree(mi.X.Type()) {
					return Term{}, false
				}
				stores++
			}
		case *ssa.Slice, *ssa.DebugRef:
		default:
			return Term{}, false
		}
	}
	if int64(stores) != arr.Len() {
		return Term{}, false
	}
	heap, es := c.elemHeap(arr.Elem())
	inner := Select(c.get(st, heap), fr.val(al), ArraySort(SInt, es))
	elems := []Term{a[0]}
	sorts := []Sort{SInt}
	for i := int64(0); i < arr.Len(); i++ {
		elems = append(elems, Select(inner, IntLit(i), es))
		sorts = append(sorts, es)
	}
	fn := fmt.Sprintf("ext_fmt.Sprintf_%d", arr.Len())
	c.declareFun(fn, sorts, SInt)
	return Term{app(fn, elems...), SInt}, true
}
