#!/usr/bin/env python3
# Regenerates MANIFEST.json from the table below (kept here so that the file stays valid and in sync).
import json, subprocess
props=[json.loads(l) for l in open('/verif/properties.jsonl')]
claimed = {
 "C06": ("proof", "Deductive proof, for all inputs, of the postconditions of validateTransition (== documented table), validateClaimInvariant (== claim rule) and buildSetEvents (effect of the returned events on (state, claimant) is an allowed transition and satisfies the claim invariant; no events on error) generated from the go/ssa of the real functions; proof is the right level because the property quantifies over every (state, claimant, request) combination.",
         "DESIGN.md §8 C06", "Trusted: encoding/json round trip on payload structs, time.Format/Parse round trip, strings.TrimSpace algebra, go/ssa, the SMT solvers, the VC generator. The (state, claimant) step of replay is a spec function; its agreement with replayEvents is a separate obligation group (listed in evidence when under contract). Writer induction over command sequences is the standard soundness argument of invariants.",
         "contract-based deductive verification (own VC generator over go/ssa + z3/cvc5)"),
 "C08": ("proof", "Deductive proof, for all graphs, that isReady/isBlocked/isEpicComplete/areEpicDepsComplete equal the spec predicates transcribed from the statement, that listTasks/filterTasksByKind/readyTasks return exactly the specified members (in-place filtering with aliasing modelled) ordered by (created, id). All inputs, all map iteration orders.",
         "DESIGN.md §8 C08", "Trusted: sort.Slice/sort.Strings contracts (permutation + order by the proved comparator), go/ssa, solvers, VC generator. wfGraph (non-nil maps/values, Tasks[k].ID==k) is a precondition established by replayEvents (separate obligation).",
         "contract-based deductive verification (own VC generator over go/ssa + z3/cvc5)"),
 "C09": ("proof", "Deductive proof, for all graphs, that selectPruneTargets returns exactly the finished tasks and the epics without unfinished children, sorted; five loop invariants over map ranges and slices.",
         "DESIGN.md §8 C09", "Trusted: sort.Strings contract, go/ssa, solvers, VC generator. Clauses of C09 about tombstone replay, id reuse and command guards are not yet under contract (see DESIGN.md).",
         "contract-based deductive verification (own VC generator over go/ssa + z3/cvc5)"),
}
hooks=subprocess.run(['git','-C','/repo','log','--format=%H %s'],capture_output=True,text=True).stdout.strip().split('\n')
hook_commits=[l.split()[0] for l in hooks if l.split(' ',1)[1].startswith('verif:')]
checks=[]
for pid,(cat,text,ref,note,tech) in sorted(claimed.items()):
    checks.append({"property_id":pid,"quick_cmd":"./check %s --tier quick"%pid,"thorough_cmd":"./check %s --tier thorough"%pid,
      "evidence_file":"/verif/evidence/%s.json"%pid,"replay_cmd_template":"./check %s --replay {path}"%pid,"engine":"ergoverify",
      "level_claimed":{"category":cat,"text":text,"design_ref":ref},"level_note":note,"technique":tech})
na=[{"property_id":p["id"],"reason":"not yet claimed: contracts for the functions this property depends on are not yet discharged (machinery under construction; DESIGN.md §12 gives the build order)"} for p in props if p["id"] not in claimed]
m={"version":1,
 "setup_cmd":"cd /verif/engine && GOFLAGS=-mod=mod GOPROXY=off go build -o /verif/bin/ergoverify .",
 "hooks":{"guard":"verif","enable":"go build -tags=verif (internal/ergo/verif_contracts.go is only compiled with the tag; it holds //@ contract comments, no runtime hooks)",
          "baseline_off_cmd":"cd /repo && GOFLAGS=-mod=mod GOPROXY=off go test -vet=off -count=1 ./...",
          "source_commits":hook_commits,"add_only":True},
 "engines":[{"name":"ergoverify","path":"/verif/engine","serves_properties":sorted(claimed),"kind_free_text":"Boogie-style VC generator over go/ssa of the real package + contracts in //@ comments; z3 4.8/z3 5.1/cvc5 portfolio; counterexamples replayed with go test -overlay"}],
 "checks":checks,"not_applicable":na,
 "notes":"known_findings.jsonl lists fixed/recorded defects; baseline/obligations.json lists contract clauses that must keep binding."}
json.dump(m,open('/verif/MANIFEST.json','w'),indent=1)
print(len(checks),'checks')
