#!/usr/bin/env python3
# Regenerates MANIFEST.json from the table below (kept here so that the file stays valid and in sync).
import json, subprocess
props=[json.loads(l) for l in open('/verif/properties.jsonl')]
TRUST='Trusted: go/ssa lowering, the SMT solvers, the VC generator itself, the trusted table of stdlib/kernel contracts (listed per run in evidence.coverage.trusted_base), and the ASSUMED contracts of the storage primitives readEvents/appendEvents/replaceEventsAtomically/getEventsPath/ergoDir and of writeJSON until the storage layer is under contract. '
TECH='contract-based deductive verification (own VC generator over go/ssa of the real package; z3 4.8 / z3 5.1 / cvc5 portfolio)'
claimed = {
 "C01": ("proof", "For all stores and all schedules: proved on the real code that withLock calls its callback at most once, only while holding the requested flock mode, never blocks (LOCK_NB) and releases; that the claim section picks ready[0] of a list proved to be exactly the ready tasks of the requested epic ordered by (created, id), appends exactly [claim(id, agent), state(id, doing)] whose replay effect is doing+that agent, under LOCK_EX and in the lock epoch of its own read; errors leave the log version unchanged. The schedule quantifier is discharged by the lock-invariant rule, not by exploration.",
         "DESIGN.md §7.2, §8 C01", TRUST+"flock(2) exclusivity and fail-fast are trusted; no interleaving is enumerated."),
 "C02": ("proof", "Lock protocol as ghost state over every writer except plan: each call of a write primitive is proved to happen with LOCK_EX held and on a graph read in the same lock epoch; withLock never blocks; every section is at most one commit and leaves the log version unchanged on error. Commands that are more than one lock section (set with a result, new task with state/claim/result, sequence with several edges) are recorded findings with machine-checked residual queries (the clause holds outside the recorded shape).",
         "DESIGN.md §7.2, §8 C02", TRUST+"Serialisability of sections under every interleaving follows from the trusted flock contract; byte-level interleaving of appends (O_APPEND whole lines) is part of the assumed appendEvents contract."),
 "C06": ("proof", "For all inputs: validateTransition equals the documented table, validateClaimInvariant equals the claim rule, buildSetEvents returns at most six events whose folded (state, claimant) effect is an allowed transition and satisfies the claim invariant, and nothing on error; the set section appends exactly those events for the live item read under the lock; the claim section yields doing+agent; creation yields todo/unclaimed. The step used in the fold is proved to be what one iteration of the real replay loop does to every live item, for every event type.",
         "DESIGN.md §7.1, §8 C06", TRUST+"encoding/json and time.Format/Parse round trips and strings.TrimSpace algebra are trusted; induction over command sequences is the standard soundness argument of invariants. Two genuine defects were repaired (fix: 15917f3)."),
 "C07": ("proof", "For all graphs: the recursive reachability search is proved complete (a false answer leaves a dependency-closed visited set containing the target end and not the source), the link section appends only after existence, tombstone, self, kind and cycle checks on the graph read under the lock, and an explicit re-ranking lemma is discharged showing that any strict ranking of the read graph extends to the graph plus the appended edge (acyclicity preserved); sequence builds edge B->A for consecutive A B; tombstone replay removes exactly the edges touching the pruned id.",
         "DESIGN.md §8 C07", TRUST+"Acyclicity is stated as existence of a rank; rankOf is uninterpreted so the lemma holds for every ranking. deps/rdeps mirror and plan edges are not yet under contract."),
 "C08": ("proof", "For all graphs and all map iteration orders: isReady/isBlocked/isEpicComplete/areEpicDepsComplete equal the spec predicates transcribed from the statement; listTasks/filterTasksByKind (in-place, aliasing modelled)/readyTasks return exactly the specified members ordered by (created, id); the claim section returns the first of them and reports no-ready exactly when the set is empty.",
         "DESIGN.md §8 C08", TRUST+"sort.Slice/sort.Strings contracts (same elements, ordered by the proved comparator)."),
 "C09": ("proof", "For all graphs: selectPruneTargets returns exactly the finished tasks and the epics without unfinished children; the dry run writes nothing and the applied tombstones are exactly the planned ids; replay keeps every tombstoned id out of tasks, meta and all edges for EVERY event list (loop invariant over the real replay loop, all cases); set/link/result sections reject pruned and unknown ids; new ids are fresh against live and pruned ids (defect repaired, fix: 5cfb160).",
         "DESIGN.md §8 C09", TRUST+"crypto/rand/base32 id generation is an assumed contract (some string or an error)."),
 "C10": ("proof", "Ghost log version: every lock section and every command under contract has the postcondition `error ==> log version unchanged`, proved from the real code with validation-before-append; where the real code commits before it validates (set with result, new task with follow-up fields, multi-edge sequence, post-commit reload) the failing clause is a recorded finding whose residual query (clause holds outside the recorded shape) is discharged on every run.",
         "DESIGN.md §8 C10", TRUST+"I/O faults of write primitives and stdout are excluded; plan is not yet under contract."),
 "C12": ("proof", "For every event list (also hand-merged, reordered, unknown types): every panic-capable instruction of replayEvents/applyTombstone and of the read-side graph functions has a discharged safety obligation (no nil-map write, nil dereference, index out of range), and the replayed graph is well-formed; every comparator feeding list output is proved a strict total order on the sorted items (epics by (created, id): defect repaired, fix: 109c988; tasks by id over distinct ids); list, show, where and prune without --yes are proved to leave the ghost log version and commit counter unchanged and to create no file other than the lock.",
         "DESIGN.md §8 C12", TRUST+"readEvents' scanner loop and located error text, topoSortTasks and the tree renderer are assumed; time bounds are not expressible."),
 "C18": ("proof", "Ghost file-presence model: getEventsPath is proved (on its body) to choose plans.jsonl if present, else events.jsonl if present, else plans.jsonl; init is proved never to switch an existing store to a different log file and never to remove a file (defect repaired, fix: 18a75a4); withLock creates at most the lock file; a structural census proves that every log primitive in the package receives a path flowing from getEventsPath and that every writer is under contract. The directory search itself (string algebra of filepath) is a BOUNDED stand-in: exhaustive over chains of depth <= 4, all subsets of levels holding .ergo, six spellings of the start (relative start defect repaired, fix: baee177).",
         "DESIGN.md §8 C18", TRUST+"os.Stat succeeds iff the path exists (faults excluded); filepath.Join distinctness axiom; the bounded part is labelled bounded and never counted as proved."),
 "C20": ("proof", "The result section is proved to append only for a live, unpruned, non-epic task, with the cleaned path, the captured evidence and the trimmed summary in the event; the replay loop is proved, for every event type and every event list, to prepend a result's fields to the addressed live task and to leave every other task's results untouched (length and elements); the output builder copies them in order. Lexical confinement of the path is a BOUNDED stand-in (137k strings over {./aergo}, length <= 6, plus curated cases, against a component-wise oracle on a real directory tree).",
         "DESIGN.md §8 C20", TRUST+"sha256/mtime/git capture and file_url derivation are assumed contracts; compaction order belongs to C05."),
 "C14": ("proof", "For all stores: creation with an epic id and epic reassignment are proved to require an existing, unpruned item that is an epic (two genuine defects repaired, fix: 02540a6); epics are never given an epic; the prune policy removes an epic only when every child is finished (and those children are pruned in the same batch).",
         "DESIGN.md §8 C14", TRUST+"plan and the tree builder are not yet under contract."),
 "C16": ("proof", "Ghost output counters: for claim, claim <id>, set, new task, new epic, sequence, prune, compact, show, init it is proved that a successful --json run writes exactly one JSON value and no text to stdout and a failing one at most one JSON object and no text; the create reply (id, state, title, body, epic, kind) equals the appended event.",
         "DESIGN.md §7.4, §8 C16", TRUST+"writeJSON/fmt.Print* contracts are assumed; cmd/ergo wiring, list and plan are outside the functions under contract."),
}
claimed = {k:(v[0],v[1],v[2],v[3],TECH) for k,v in claimed.items()}
NA={
 "C03":"not yet claimed: needs the storage layer (appendEvents/readEvents bodies) under contract with crash conditions; planned (DESIGN.md §7.3)",
 "C04":"not yet claimed: needs crash conditions on the multi-event writers; planned (DESIGN.md §7.3)",
 "C05":"not yet claimed: compactEvents round-trip lemma not yet discharged (DESIGN.md §8 C05)",
 "C11":"not yet claimed: RunPlan's section (three loops over a mutable working graph) is not yet under contract",
 "C13":"not yet claimed: needs the rely/guarantee treatment of readEvents (DESIGN.md §8 C13)",
 "C15":"not yet claimed: progress lemma over the effective waits-for relation not yet written (DESIGN.md §8 C15)",
 "C17":"not yet claimed: identity-dataflow contracts over the input paths not yet written",
 "C19":"not yet claimed: structural contracts of the tree view not yet written; glyph geometry and width arithmetic are outside contract reach (go-runewidth tables)",
}
hooks=subprocess.run(['git','-C','/repo','log','--format=%H %s'],capture_output=True,text=True).stdout.strip().split('\n')
hook_commits=[l.split()[0] for l in hooks if l.split(' ',1)[1].startswith('verif:')]
checks=[]
for pid,(cat,text,ref,note,tech) in sorted(claimed.items()):
    checks.append({"property_id":pid,"quick_cmd":"./check %s --tier quick"%pid,"thorough_cmd":"./check %s --tier thorough"%pid,
      "evidence_file":"/verif/evidence/%s.json"%pid,"replay_cmd_template":"./check %s --replay {path}"%pid,"engine":"ergoverify",
      "level_claimed":{"category":cat,"text":text,"design_ref":ref},"level_note":note,"technique":tech})
na=[{"property_id":p["id"],"reason":NA.get(p["id"], "not yet claimed: contracts for the functions this property depends on are not yet discharged")} for p in props if p["id"] not in claimed]
m={"version":1,
 "setup_cmd":"cd /verif/engine && GOFLAGS=-mod=mod GOPROXY=off go build -o /verif/bin/ergoverify .",
 "hooks":{"guard":"verif","enable":"go build -tags=verif (internal/ergo/verif_contracts.go is only compiled with the tag; it holds //@ contract comments, no runtime hooks)",
          "baseline_off_cmd":"cd /repo && GOFLAGS=-mod=mod GOPROXY=off go test -vet=off -count=1 ./...",
          "source_commits":hook_commits,"add_only":True},
 "engines":[{"name":"ergoverify","path":"/verif/engine","serves_properties":sorted(claimed),"kind_free_text":"Boogie-style VC generator over go/ssa of the real package + contracts in //@ comments; z3 4.8/z3 5.1/cvc5 portfolio; counterexamples replayed with go test -overlay"}],
 "checks":checks,"not_applicable":na,
 "notes":"known_findings.jsonl lists fixed/recorded defects; baseline/obligations.json lists contract clauses that must keep binding."}
json.dump(m,open('/verif/MANIFEST.json','w'),indent=1)
print(len(checks),'checks')
