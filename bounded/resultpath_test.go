package ergo

// Bounded stand-in for C20 (labelled bounded): validateResultPath accepts exactly the relative paths that, after
// cleaning, name an existing regular file (or symlink to one) inside the project root and outside .ergo.
// Bound: all strings of length <= 6 over the alphabet {'.', '/', 'a', 'e', 'r', 'g', 'o'} plus a curated list.

import (
	"fmt"
	"os"
	"path/filepath"
	"strings"
	"testing"
)

func TestVerifBounded_validateResultPath(t *testing.T) {
	root := t.TempDir()
	must := func(err error) {
		if err != nil {
			t.Fatal(err)
		}
	}
	must(os.MkdirAll(filepath.Join(root, ".ergo"), 0755))
	must(os.WriteFile(filepath.Join(root, ".ergo", "a"), []byte("x"), 0644))
	must(os.MkdirAll(filepath.Join(root, "a"), 0755))
	must(os.WriteFile(filepath.Join(root, "a", "a"), []byte("x"), 0644))
	must(os.WriteFile(filepath.Join(root, "e"), []byte("x"), 0644))
	must(os.WriteFile(filepath.Join(root, "..a"), []byte("x"), 0644))
	must(os.WriteFile(filepath.Join(root, ".ergoa"), []byte("x"), 0644))
	must(os.MkdirAll(filepath.Join(root, "g"), 0755))
	must(os.WriteFile(filepath.Join(filepath.Dir(root), "o"), []byte("outside"), 0644))
	defer os.Remove(filepath.Join(filepath.Dir(root), "o"))
	alphabet := []byte{'.', '/', 'a', 'e', 'r', 'g', 'o'}
	var inputs []string
	var gen func(prefix []byte, n int)
	gen = func(prefix []byte, n int) {
		if len(prefix) > 0 {
			inputs = append(inputs, string(prefix))
		}
		if n == 0 {
			return
		}
		for _, c := range alphabet {
			gen(append(prefix, c), n-1)
		}
	}
	gen(nil, 6)
	inputs = append(inputs, "", "/e", "../o", "a/../../o", "a/../e", "./e", "a//a", ".ergo/a", ".ergo", "./.ergo/a", "a/../.ergo/a", "..a", ".ergoa", "g", "a/", "e/", "a/a/", "/"+root+"/e")
	cases, failures, overstrict := 0, 0, 0
	for _, in := range inputs {
		cases++
		got, err := validateResultPath(root, in)
		// oracle, component-wise on the cleaned path
		clean := filepath.Clean(in)
		ok := true
		switch {
		case filepath.IsAbs(clean):
			ok = false
		default:
			parts := strings.Split(clean, string(filepath.Separator))
			if parts[0] == ".." || parts[0] == ".ergo" {
				ok = false
			}
			if ok {
				info, serr := os.Stat(filepath.Join(root, clean))
				if serr != nil || info.IsDir() {
					ok = false
				}
			}
		}
		// the property states "only": acceptance implies the oracle; needless rejections (e.g. a file named "..a")
		// are over-strictness, not a violation, and are only counted
		if err == nil && !ok {
			failures++
			if failures <= 10 {
				t.Errorf("validateResultPath(%q): ACCEPTED (cleaned %q, returned %q) but the path is not an existing regular file inside the project and outside .ergo", in, clean, got)
			}
			continue
		}
		if err != nil && ok {
			overstrict++
		}
		if err == nil {
			if got != clean {
				failures++
				t.Errorf("validateResultPath(%q) returned %q, want cleaned %q", in, got, clean)
			}
			abs := filepath.Join(root, got)
			if !strings.HasPrefix(abs, root+string(filepath.Separator)) || strings.HasPrefix(abs, filepath.Join(root, ".ergo")+string(filepath.Separator)) {
				failures++
				t.Errorf("validateResultPath(%q) accepted a path outside the project or inside .ergo: %s", in, abs)
			}
		}
	}
	fmt.Printf("VERIF-BOUNDED name=validateResultPath cases=%d failures=%d bound=all-strings-len<=6-over-{./aergo}+curated overstrict=%d\n", cases, failures, overstrict)
}
