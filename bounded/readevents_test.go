package ergo

// Bounded stand-in for the reader side of C03 and C13 (labelled bounded, never counted as proved): readEvents'
// scanner loop is outside the verified subset (bufio.Scanner with a stateful split function), so its contract
//   - blank lines are skipped, parsable lines are returned in order,
//   - an unparsable COMPLETE line is an error naming path:lineNo,
//   - an unparsable FINAL line is dropped exactly when the bytes read do not end in a newline,
//   - a parsable final line without newline counts,
// is exercised on the real function against an independent oracle.
// Bound: (a) every sequence of up to 4 (thorough: 5) lines over 7 line kinds x 4 tail variants;
//        (b) for 40 generated valid logs, EVERY byte prefix (what a reader sees of a log that is being extended, and
//            what a write cut short at that byte leaves behind): the read must succeed and return exactly the events of
//            the complete lines inside the prefix (plus the cut line if the cut happens to leave it parsable).

import (
	"encoding/json"
	"fmt"
	"os"
	"path/filepath"
	"strings"
	"testing"
)

type verifLineKind struct {
	text  string
	valid bool // parses as an Event
	blank bool
}

func TestVerifBounded_readEvents(t *testing.T) {
	dir := t.TempDir()
	path := filepath.Join(dir, "plans.jsonl")
	kinds := []verifLineKind{
		{`{"type":"new_task","ts":"2026-01-01T00:00:00Z","data":{"id":"AAAAAA"}}`, true, false},
		{`{"type":"state","ts":"2026-01-01T00:00:01Z","data":{"id":"AAAAAA","new_state":"done"}}`, true, false},
		{``, false, true},
		{"  \t ", false, true},
		{`{"type":"state","ts":"2026-01-01T00:0`, false, false},
		{`<<<<<<< HEAD`, false, false},
		{`  {"type":"link","ts":"2026-01-01T00:00:02Z","data":{}}  `, true, false},
	}
	tails := []struct {
		text  string
		valid bool
		none  bool
	}{
		{"", false, true},
		{`{"type":"claim","ts":"2026-01-01T00:00:03Z","data":{"id":"A`, false, false},
		{`{"type":"claim","ts":"2026-01-01T00:00:03Z","data":{"id":"AAAAAA"}}`, true, false},
		{`   `, false, false},
	}
	maxLen := 4
	if os.Getenv("VERIF_TIER") == "thorough" {
		maxLen = 5
	}
	cases, failures := 0, 0
	fail := func(format string, args ...interface{}) {
		failures++
		if failures <= 10 {
			t.Errorf(format, args...)
		}
	}
	var seq []int
	var rec func()
	check := func() {
		for ti, tail := range tails {
			cases++
			var b strings.Builder
			for _, k := range seq {
				b.WriteString(kinds[k].text)
				b.WriteString("\n")
			}
			b.WriteString(tail.text)
			if err := os.WriteFile(path, []byte(b.String()), 0644); err != nil {
				t.Fatal(err)
			}
			// oracle
			var want []string
			wantErrLine := 0
			for i, k := range seq {
				if kinds[k].blank {
					continue
				}
				if !kinds[k].valid {
					wantErrLine = i + 1
					break
				}
				want = append(want, strings.TrimSpace(kinds[k].text))
			}
			if wantErrLine == 0 && !tail.none {
				if tail.valid {
					want = append(want, strings.TrimSpace(tail.text))
				}
				// unparsable or blank tail without newline: dropped silently
			}
			got, err := readEvents(path)
			if wantErrLine > 0 {
				if err == nil {
					fail("seq=%v tail=%d: unparsable complete line %d accepted silently", seq, ti, wantErrLine)
				} else if !strings.Contains(err.Error(), fmt.Sprintf(":%d:", wantErrLine)) {
					fail("seq=%v tail=%d: error does not name line %d: %v", seq, ti, wantErrLine, err)
				}
				continue
			}
			if err != nil {
				fail("seq=%v tail=%d: unexpected error %v", seq, ti, err)
				continue
			}
			if len(got) != len(want) {
				fail("seq=%v tail=%d: %d events, want %d", seq, ti, len(got), len(want))
				continue
			}
			for i := range got {
				var w Event
				_ = json.Unmarshal([]byte(want[i]), &w)
				if got[i].Type != w.Type || string(got[i].Data) != string(w.Data) {
					fail("seq=%v tail=%d: event %d is %s/%s, want %s/%s", seq, ti, i, got[i].Type, got[i].Data, w.Type, w.Data)
				}
			}
		}
	}
	rec = func() {
		check()
		if len(seq) == maxLen {
			return
		}
		for k := range kinds {
			seq = append(seq, k)
			rec()
			seq = seq[:len(seq)-1]
		}
	}
	rec()

	// (b) every byte prefix of valid logs
	prefixCases := 0
	for n := 0; n < 40; n++ {
		var lines []string
		for i := 0; i <= n%5; i++ {
			lines = append(lines, fmt.Sprintf(`{"type":"new_task","ts":"2026-01-01T00:00:0%dZ","data":{"id":"T%05d","title":"t %d é \"q\""}}`, i, n*10+i, i))
		}
		full := strings.Join(lines, "\n") + "\n"
		for cut := 0; cut <= len(full); cut++ {
			prefixCases++
			if err := os.WriteFile(path, []byte(full[:cut]), 0644); err != nil {
				t.Fatal(err)
			}
			got, err := readEvents(path)
			if err != nil {
				fail("log %d cut at byte %d: reader failed: %v", n, cut, err)
				continue
			}
			whole := strings.Count(full[:cut], "\n")
			// the cut line counts only if the cut left it parsable (cut exactly before its newline)
			wantN := whole
			if rest := full[:cut][strings.LastIndex(full[:cut], "\n")+1:]; rest != "" {
				var e Event
				if json.Unmarshal([]byte(rest), &e) == nil {
					wantN++
				}
			}
			if len(got) != wantN {
				fail("log %d cut at byte %d: %d events, want %d", n, cut, len(got), wantN)
			}
		}
	}
	fmt.Printf("VERIF-BOUNDED name=readEvents cases=%d failures=%d bound=line-sequences-len<=%d-over-7-kinds-x-4-tails+every-byte-prefix-of-40-logs(%d)\n", cases+prefixCases, failures, maxLen, prefixCases)
}
