package ergo

// Bounded stand-in for C17 (labelled bounded): a title/body written through the real chain
// newEvent -> appendEvents -> readEvents -> replayEvents -> buildTaskShowOutput -> writeJSON comes back identical.
// Bound: all strings of 1..3 code points over an alphabet of troublemakers (quick tier: 1..2), plus long strings,
// plus 23 literals that look like escape sequences of the serialisation (each alone, embedded, doubled).

import (
	"bytes"
	"encoding/json"
	"fmt"
	"os"
	"path/filepath"
	"strings"
	"testing"
	"time"
	"unicode/utf8"
)

func TestVerifBounded_textRoundTrip(t *testing.T) {
	alphabet := []string{"a", " ", "\n", "\r", "\t", "\"", "\\", "/", "\x00", "\x1f", "\x7f", "<", ">", "&", "'", "{", "}",
		"\u00e9", "\u0301", "\u2028", "\u2029", "\u200b", "\ufeff", "\ufffd", "\ud7ff", "\ue000", "\uffff", "\U00010000", "\U0001F600", "\U0010FFFF", "\u4e2d", "\u00a0"}
	maxLen := 2
	if os.Getenv("VERIF_TIER") == "thorough" {
		maxLen = 3
	}
	var inputs []string
	var gen func(prefix string, n int)
	gen = func(prefix string, n int) {
		if prefix != "" {
			inputs = append(inputs, prefix)
		}
		if n == 0 {
			return
		}
		for _, a := range alphabet {
			gen(prefix+a, n-1)
		}
	}
	gen("", maxLen)
	inputs = append(inputs, strings.Repeat("x\u4e2d\"\\\n", 60000), strings.Repeat("\U0001F600", 100000))
	// text that LOOKS like an escape sequence of the serialisation (must come back as the same literal characters)
	for _, lit := range []string{`\u003c`, `\u003e`, `\u0026`, `\u2028`, `\u0000`, `\ud800`, `\n`, `\t`, `\"`, `\/`, `\\`, `\\u003c`, `\x41`, `&lt;`, `&gt;`, `&amp;`, `&#34;`, `%3C`, `</script>`, `{"a":"b"}`, `["x"]`, `null`, `\u003cb\u003e`} {
		inputs = append(inputs, lit, "x"+lit+"y", lit+lit)
	}
	dir := t.TempDir()
	path := filepath.Join(dir, "plans.jsonl")
	cases, failures := 0, 0
	now := time.Now().UTC()
	const batch = 500
	for start := 0; start < len(inputs); start += batch {
		end := start + batch
		if end > len(inputs) {
			end = len(inputs)
		}
		_ = os.Remove(path)
		var events []Event
		for i, s := range inputs[start:end] {
			if !utf8.ValidString(s) {
				continue
			}
			id := fmt.Sprintf("T%05d", i)
			ev, err := newEvent("new_task", now, NewTaskEvent{ID: id, UUID: "u", State: stateTodo, Title: "t" + s, Body: s, CreatedAt: formatTime(now)})
			if err != nil {
				t.Fatal(err)
			}
			events = append(events, ev)
			// a later update through the set path's event types
			ev2, _ := newEvent("title", now, TitleUpdateEvent{ID: id, Title: s + "t", TS: formatTime(now)})
			events = append(events, ev2)
		}
		if err := appendEvents(path, events); err != nil {
			t.Fatal(err)
		}
		read, err := readEvents(path)
		if err != nil {
			t.Fatalf("readEvents: %v", err)
		}
		graph, err := replayEvents(read)
		if err != nil {
			t.Fatalf("replayEvents: %v", err)
		}
		for i, s := range inputs[start:end] {
			if !utf8.ValidString(s) {
				continue
			}
			cases++
			id := fmt.Sprintf("T%05d", i)
			task := graph.Tasks[id]
			if task == nil {
				failures++
				t.Errorf("task %s (%q) missing after replay", id, s)
				continue
			}
			var buf bytes.Buffer
			if err := writeJSON(&buf, buildTaskShowOutput(task, graph.Meta[id], dir)); err != nil {
				t.Fatal(err)
			}
			if bytes.Count(buf.Bytes(), []byte("\n")) != 1 {
				failures++
				t.Errorf("show output for %q is not a single line", s)
			}
			var out struct{ Title, Body string }
			if err := json.Unmarshal(buf.Bytes(), &out); err != nil {
				failures++
				t.Errorf("show output for %q does not parse: %v", s, err)
				continue
			}
			if out.Body != s || out.Title != s+"t" {
				failures++
				if failures <= 10 {
					t.Errorf("round trip changed text: in body %q title %q, out body %q title %q", s, s+"t", out.Body, out.Title)
				}
			}
		}
	}
	fmt.Printf("VERIF-BOUNDED name=textRoundTrip cases=%d failures=%d bound=strings-of-1..%d-code-points-over-%d-troublemakers+2-long+69-escape-lookalikes\n", cases, failures, maxLen, len(alphabet))
}
