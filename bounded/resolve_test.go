package ergo

// Bounded stand-in for C18 (labelled bounded, never counted as proved): resolveErgoDir returns the nearest
// enclosing .ergo of the ABSOLUTE start directory for every spelling of the start.
// Bound: directory chains of depth <= 4, .ergo present at every subset of levels, start at every level,
// spellings {absolute, relative ".", relative path from an ancestor, trailing slash, a/../a, the .ergo dir itself}.

import (
	"fmt"
	"os"
	"path/filepath"
	"testing"
)

func TestVerifBounded_resolveErgoDir(t *testing.T) {
	cases, failures := 0, 0
	wd, _ := os.Getwd()
	defer os.Chdir(wd)
	const depth = 4
	for mask := 0; mask < 1<<depth; mask++ {
		root := t.TempDir()
		root, _ = filepath.EvalSymlinks(root)
		levels := []string{root}
		cur := root
		for i := 1; i < depth; i++ {
			cur = filepath.Join(cur, fmt.Sprintf("d%d", i))
			levels = append(levels, cur)
		}
		if err := os.MkdirAll(cur, 0755); err != nil {
			t.Fatal(err)
		}
		for i, l := range levels {
			if mask&(1<<i) != 0 {
				_ = os.MkdirAll(filepath.Join(l, ".ergo"), 0755)
			}
		}
		for si, startAbs := range levels {
			// oracle: nearest enclosing .ergo at or above startAbs, inside the temp root
			want := ""
			for j := si; j >= 0; j-- {
				if mask&(1<<j) != 0 {
					want = filepath.Join(levels[j], ".ergo")
					break
				}
			}
			type spelling struct{ name, cwd, start string }
			sp := []spelling{
				{"absolute", root, startAbs},
				{"dot", startAbs, "."},
				{"trailing-slash", root, startAbs + string(filepath.Separator)},
				{"dotdot", startAbs, filepath.Join("..", filepath.Base(startAbs))},
			}
			if si > 0 {
				rel, _ := filepath.Rel(root, startAbs)
				sp = append(sp, spelling{"relative-from-root", root, rel})
			}
			if mask&(1<<si) != 0 {
				sp = append(sp, spelling{"ergo-dir-itself", root, filepath.Join(startAbs, ".ergo")})
			}
			for _, s := range sp {
				if s.name == "dotdot" && si == 0 {
					continue
				}
				cases++
				_ = os.Chdir(s.cwd)
				got, err := resolveErgoDir(s.start)
				gotAbs := got
				if got != "" {
					gotAbs, _ = filepath.Abs(got)
				}
				if want == "" {
					// an .ergo above the temp root could exist on this machine: only require that nothing inside the tree is invented
					if err == nil && len(gotAbs) >= len(root) && gotAbs[:len(root)] == root {
						failures++
						t.Errorf("mask=%04b start=%s (%s): found %s, want none", mask, s.start, s.name, got)
					}
					continue
				}
				if err != nil || gotAbs != want {
					failures++
					t.Errorf("mask=%04b cwd=%s start=%s (%s): got %q err=%v, want %q", mask, s.cwd, s.start, s.name, got, err, want)
				} else if !filepath.IsAbs(got) {
					failures++
					t.Errorf("mask=%04b start=%s (%s): result %q is not absolute (file URLs derived from it would be relative)", mask, s.start, s.name, got)
				}
			}
		}
	}
	fmt.Printf("VERIF-BOUNDED name=resolveErgoDir cases=%d failures=%d bound=depth<=4,all-subsets-of-.ergo-levels,6-spellings\n", cases, failures)
}
