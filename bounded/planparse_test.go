package ergo

// Bounded stand-in for the ASSUMED contracts of ParsePlanInput and ParseTaskInput (strict decoding of stdin):
// labelled bounded, never counted as proved. C11 quantifies over "unknown keys, several JSON values, missing or
// blank fields"; the decoder configuration (DisallowUnknownFields, single value) is library behaviour the
// generator cannot see, so it is exercised on the real functions with stdin replaced by a pipe.
// Bound: 22 hand-written payloads per parser x 6 tails (nothing, whitespace, newline, second object, scalar,
// garbage), each judged by an oracle that knows which payloads are well-formed and which tails are harmless.

import (
	"fmt"
	"os"
	"testing"
)

func verifWithStdin(t *testing.T, data string, f func()) {
	r, w, err := os.Pipe()
	if err != nil {
		t.Fatal(err)
	}
	old := os.Stdin
	os.Stdin = r
	defer func() { os.Stdin = old; r.Close() }()
	go func() {
		_, _ = w.Write([]byte(data))
		w.Close()
	}()
	f()
}

func TestVerifBounded_planParse(t *testing.T) {
	type payload struct {
		text string
		ok   bool // syntactically acceptable to the parser (semantic validation is Validate's job)
	}
	plans := []payload{
		{`{"title":"E","tasks":[{"title":"a"}]}`, true},
		{`{"title":"E","body":"b","tasks":[{"title":"a","body":"x","after":[]},{"title":"b","after":["a"]}]}`, true},
		{`{"title":"E","tasks":[]}`, true},
		{`{}`, true},
		{`{"title":"E","tasks":[{"title":"a"}],"extra":1}`, false},
		{`{"title":"E","tasks":[{"title":"a","state":"done"}]}`, false},
		{`{"title":"E","tasks":[{"title":"a","After":["a"]}],"epic":"x"}`, false},
		{`{"title":"E","tasks":[{"title":"a","id":"ABCDEF"}]}`, false},
		{`{"title":1,"tasks":[]}`, false},
		{`{"title":"E","tasks":{}}`, false},
		{`{"title":"E","tasks":[{"title":"a","after":"a"}]}`, false},
		{`[{"title":"E"}]`, false},
		{`"just a string"`, false},
		{`{"title":"E","tasks":[{"title":"a"}]`, false},
		{`{"title":"E",}`, false},
		{``, false},
		{`   `, false},
		{`null`, true},
		{`{"title":"E","title":"F","tasks":[{"title":"a"}]}`, true},
		{"\ufeff" + `{"title":"E","tasks":[{"title":"a"}]}`, false},
		{`{"title":"\ud800","tasks":[{"title":"a"}]}`, true},
		{`{"TITLE":"E","tasks":[{"title":"a"}]}`, true},
	}
	tasksIn := []payload{
		{`{"title":"a"}`, true},
		{`{"title":"a","body":"b","state":"todo","claim":"","epic":"","result_path":"r","result_summary":"s"}`, true},
		{`{}`, true},
		{`{"title":"a","unknown":true}`, false},
		{`{"title":"a","tasks":[]}`, false},
		{`{"title":"a","after":["x"]}`, false},
		{`{"title":"a","id":"ABCDEF"}`, false},
		{`{"title":1}`, false},
		{`{"title":["a"]}`, false},
		{`[{"title":"a"}]`, false},
		{`"x"`, false},
		{`{"title":"a"`, false},
		{`{"title":"a",}`, false},
		{``, false},
		{` `, false},
		{`null`, true},
		{`{"title":"a","title":"b"}`, true},
		{"\ufeff" + `{"title":"a"}`, false},
		{`{"state":"nonsense"}`, true},
		{`{"Title":"a"}`, true},
		{`{"title":null}`, true},
		{`{"claim":null,"state":null}`, true},
	}
	tails := []struct {
		text     string
		harmless bool
	}{
		{"", true}, {"  \t", true}, {"\n\n", true}, {` {"title":"second"}`, false}, {" 1", false}, {" ]", false},
	}
	cases, failures := 0, 0
	fail := func(format string, args ...interface{}) {
		failures++
		if failures <= 10 {
			t.Errorf(format, args...)
		}
	}
	run := func(name string, ps []payload, parse func() bool) {
		for _, p := range ps {
			for _, tl := range tails {
				if p.text == "" || p.text == " " || p.text == "   " {
					if tl.text != "" {
						continue
					}
				}
				cases++
				want := p.ok && tl.harmless
				var got bool
				verifWithStdin(t, p.text+tl.text, func() { got = parse() })
				if got != want {
					fail("%s(%q + tail %q): accepted=%v, want %v", name, p.text, tl.text, got, want)
				}
			}
		}
	}
	run("ParsePlanInput", plans, func() bool { in, verr := ParsePlanInput(); return verr == nil && in != nil })
	run("ParseTaskInput", tasksIn, func() bool { in, verr := ParseTaskInput(); return verr == nil && in != nil })
	fmt.Printf("VERIF-BOUNDED name=planParse cases=%d failures=%d bound=22-payloads-per-parser-x-6-tails\n", cases, failures)
}
