package ergo

// Bounded supplement for C05 (labelled bounded, never counted as proved): the deductive part proves, on the real
// body of compactEvents, what is emitted per live item (create event with the created values; a group whose fold
// under the proved replay step semantics gives back state, claimant, title, body, epic; results oldest first; one
// link event per dependency). The composition "replaying that list restores every observable field" is an
// induction over the groups that the generator does not carry out; this test exercises exactly that composition
// end to end through the real writers, the real replay and the real compaction.
// Bound: 400 (thorough: 4000) pseudo-random histories of 10..34 commands over <= 6 items (create task/epic, set
// state/claim/title/body/epic, result, link, prune), seeds fixed; after each history: snapshot, compact, snapshot,
// compact again, snapshot; plus one more command after compaction on both branches.

import (
	"encoding/json"
	"fmt"
	"math/rand"
	"os"
	"path/filepath"
	"sort"
	"testing"
)

func verifSnapshot(t *testing.T, dir string) string {
	g, err := loadGraph(dir)
	if err != nil {
		return "ERROR " + err.Error()
	}
	type item struct {
		ID, UUID, Epic, State, Claimed, Title, Body string
		IsEpic                                      bool
		Created, Updated                            string
		Deps                                        []string
		Results                                     []Result
		Ready, Blocked                              bool
		ClaimedAt                                   string
	}
	var items []item
	for id, tk := range g.Tasks {
		it := item{ID: id, UUID: tk.UUID, Epic: tk.EpicID, State: tk.State, Claimed: tk.ClaimedBy, Title: tk.Title, Body: tk.Body, IsEpic: tk.IsEpic,
			Created: formatTime(tk.CreatedAt), Updated: formatTime(tk.UpdatedAt), Results: tk.Results}
		for d := range g.Deps[id] {
			it.Deps = append(it.Deps, d)
		}
		sort.Strings(it.Deps)
		if !tk.IsEpic {
			it.Ready = isReady(tk, g)
			it.Blocked = isBlocked(tk, g)
		}
		it.ClaimedAt = claimedAtForTask(tk, g.Meta[id])
		items = append(items, it)
	}
	sort.Slice(items, func(i, j int) bool { return items[i].ID < items[j].ID })
	var order []string
	for _, tk := range readyTasks(g, "", kindTask) {
		order = append(order, tk.ID)
	}
	b, _ := json.Marshal(struct {
		Items []item
		Order []string
	}{items, order})
	return string(b)
}

func TestVerifBounded_compactRoundTrip(t *testing.T) {
	n := 400
	if os.Getenv("VERIF_TIER") == "thorough" {
		n = 4000
	}
	base, err := os.MkdirTemp("/dev/shm", "verif-c05-")
	if err != nil {
		base = t.TempDir()
	}
	defer os.RemoveAll(base)
	cases, failures := 0, 0
	totalEvents, totalItems := 0, 0
	fail := func(format string, args ...interface{}) {
		failures++
		if failures <= 8 {
			t.Errorf(format, args...)
		}
	}
	states := []string{"todo", "doing", "done", "blocked", "canceled", "error"}
	for seed := 0; seed < n; seed++ {
		rng := rand.New(rand.NewSource(int64(seed) + 1000))
		root := filepath.Join(base, fmt.Sprintf("h%d", seed))
		dir := filepath.Join(root, ".ergo")
		if err := os.MkdirAll(dir, 0755); err != nil {
			t.Fatal(err)
		}
		_ = os.WriteFile(filepath.Join(root, "r.txt"), []byte("artifact"), 0644)
		opts := GlobalOptions{StartDir: root, AgentID: "agent-" + fmt.Sprint(seed%3), Quiet: true}
		var tasks, epics []string
		pick := func(l []string) string {
			if len(l) == 0 {
				return "NOSUCH"
			}
			return l[rng.Intn(len(l))]
		}
		var log []string
		step := func() {
			switch op := rng.Intn(11); op {
			case 0:
				if len(epics) < 2 {
					if c, err := createTask(dir, opts, "", true, fmt.Sprintf("epic %d", len(epics)), "eb"); err == nil {
						epics = append(epics, c.ID)
					}
				}
			case 1, 2:
				if len(tasks) < 4 {
					ep := ""
					if rng.Intn(2) == 0 {
						ep = pick(epics)
						if ep == "NOSUCH" {
							ep = ""
						}
					}
					if c, err := createTask(dir, opts, ep, false, fmt.Sprintf("task %d \"q\" é", len(tasks)), pick([]string{"", "body\nline"})); err == nil {
						tasks = append(tasks, c.ID)
					}
				}
			case 3, 4:
				st := states[rng.Intn(len(states))]
				up := map[string]string{"state": st}
				if st == "doing" || st == "error" || rng.Intn(3) == 0 {
					up["claim"] = opts.AgentID
				}
				_ = applySetUpdates(dir, opts, pick(tasks), up, opts.AgentID, true)
			case 5:
				_ = applySetUpdates(dir, opts, pick(append(tasks, epics...)), map[string]string{"title": fmt.Sprintf("renamed %d", rng.Intn(3))}, opts.AgentID, true)
			case 6:
				_ = applySetUpdates(dir, opts, pick(append(tasks, epics...)), map[string]string{"body": pick([]string{"new body", "b2\n\twith tab"})}, opts.AgentID, true)
			case 7:
				_ = applySetUpdates(dir, opts, pick(tasks), map[string]string{"epic": pick(append(epics, ""))}, opts.AgentID, true)
			case 8:
				_ = writeResultEvent(dir, opts, pick(tasks), fmt.Sprintf("summary %d", rng.Intn(5)), "r.txt")
			case 9:
				a, b := pick(tasks), pick(tasks)
				_ = writeLinkEvent(dir, opts, pick([]string{"link", "link", "unlink"}), a, b)
			case 10:
				if rng.Intn(4) == 0 {
					_, _ = RunPruneApply(dir, opts)
				} else {
					_ = applySetUpdates(dir, opts, pick(tasks), map[string]string{"claim": ""}, opts.AgentID, true)
				}
			}
		}
		for k := 0; k < 10+rng.Intn(25); k++ {
			step()
		}
		_ = log
		cases++
		if d0, err := os.ReadFile(getEventsPath(dir)); err == nil {
			totalEvents += countLines(d0)
		}
		totalItems += len(tasks) + len(epics)
		before := verifSnapshot(t, dir)
		if err := RunCompact(opts); err != nil {
			fail("seed %d: compact failed: %v", seed, err)
			continue
		}
		after := verifSnapshot(t, dir)
		if before != after {
			fail("seed %d: compaction changed what a reader sees\n before: %s\n after:  %s", seed, before, after)
			continue
		}
		data1, _ := os.ReadFile(getEventsPath(dir))
		if err := RunCompact(opts); err != nil {
			fail("seed %d: second compact failed: %v", seed, err)
			continue
		}
		if again := verifSnapshot(t, dir); again != after {
			fail("seed %d: compacting a compacted log changed the state", seed)
		}
		// structure of a compacted log is stable (timestamps of link events aside): same number of lines
		data2, _ := os.ReadFile(getEventsPath(dir))
		if countLines(data1) != countLines(data2) {
			fail("seed %d: second compaction changed the number of events: %d -> %d", seed, countLines(data1), countLines(data2))
		}
	}
	fmt.Printf("VERIF-BOUNDED name=compactRoundTrip cases=%d failures=%d bound=%d-seeded-histories-of-10..34-commands-over-<=6-items events=%d items=%d\n", cases, failures, n, totalEvents, totalItems)
}

func countLines(b []byte) int {
	n := 0
	for _, c := range b {
		if c == '\n' {
			n++
		}
	}
	return n
}
