#!/bin/bash
# F10 (C16): `new task --json` with a claim or state reported state "todo" although the following read shows
# doing/done. Usage: F10_new_task_reply_state.sh <ergo binary>. Exit 1 when the reply disagrees with the next read.
ERGO="$1"; D=$(mktemp -d /dev/shm/f10.XXXXXX); trap 'rm -rf $D' EXIT
cd $D && "$ERGO" init >/dev/null </dev/null || exit 2
bad=0
chk() { # $1 = reply json
  id=$(echo "$1" | sed -n 's/.*"id":"\([A-Z0-9]*\)".*/\1/p'); rs=$(echo "$1" | sed -n 's/.*"state":"\([a-z]*\)".*/\1/p')
  ss=$("$ERGO" --json show "$id" </dev/null | sed -n 's/.*"state":"\([a-z]*\)".*/\1/p')
  if [ "$rs" != "$ss" ]; then echo "VIOLATION: reply says state=$rs, show $id says state=$ss"; bad=1; else echo "ok: $id $rs"; fi
}
chk "$(echo '{"title":"a","claim":"bob"}' | "$ERGO" --json new task)"
chk "$("$ERGO" --json new task --title b --state done </dev/null)"
chk "$("$ERGO" --json new task --title c --claim amy </dev/null)"
chk "$("$ERGO" --json new task --title d </dev/null)"
exit $bad
