#!/bin/bash
# K5 (C10): `claim <id>` (and `set --json`) re-read the log OUTSIDE the lock after their commit, to build the reply.
# If that read fails the command exits non-zero although the claim is recorded: a failing command that changed
# the store. The failing read is forced with strace fault injection on the third open of the log
# (1: read under the lock, 2: append, 3: the post-commit re-read).
# Usage: K5_claim_reload_fails.sh <ergo-binary>; exit 1 if the defect reproduces.
E="$1"; D=$(mktemp -d /dev/shm/k5.XXXX); trap 'rm -rf $D' EXIT; cd $D
$E init >/dev/null 2>&1
ID=$(echo '{"title":"t1"}' | $E new task 2>/dev/null)
before=$($E --json show $ID 2>/dev/null)
strace -f -o /dev/null -P "$D/.ergo/plans.jsonl" -e trace=openat -e inject=openat:error=EACCES:when=3 $E claim $ID --agent a1 >"$D/out" 2>"$D/err"; rc=$?
after=$($E --json show $ID 2>/dev/null)
if [ $rc -ne 0 ] && [ "$before" != "$after" ]; then
  echo "claim exited $rc ($(head -c 120 $D/err)) but the task changed: $(echo $after | head -c 160)"; exit 1
fi
exit 0
