#!/bin/bash
# K4 (C15): the cycle check follows direct edges only; a task dependency across two epics plus an epic dependency
# in the opposite direction is accepted and nothing is ever ready although every task is todo.
# exit 1 if the defect reproduces (unfinished work, nothing doing/blocked/error, and claim says no ready tasks).
E="$1"; D=$(mktemp -d /dev/shm/k4.XXXX); trap 'rm -rf $D' EXIT; cd $D
$E init >/dev/null 2>&1
E1=$(echo '{"title":"epic one"}' | $E new epic 2>/dev/null)
E2=$(echo '{"title":"epic two"}' | $E new epic 2>/dev/null)
T1=$(echo "{\"title\":\"t1\",\"epic\":\"$E1\"}" | $E new task 2>/dev/null)
T2=$(echo "{\"title\":\"t2\",\"epic\":\"$E2\"}" | $E new task 2>/dev/null)
$E sequence $T2 $T1 >/dev/null 2>&1 || { echo "task link rejected"; exit 0; }   # T1 depends on T2
$E sequence $E1 $E2 >/dev/null 2>&1 || { echo "epic link rejected"; exit 0; }   # E2 depends on E1: T2 waits for all of E1, i.e. for T1
out=$($E --agent a --json claim 2>/dev/null)
case "$out" in *no_ready*) echo "two todo tasks, nothing in progress, and claim answers: $out"; exit 1;; esac
exit 0
