#!/bin/bash
# F8 (C18/C20): with a relative --dir, commands started in a sub-directory do not find the enclosing .ergo,
# and show --json reports a relative file_url. exit 1 if the defect reproduces.
E="$1"; D=$(mktemp -d /dev/shm/f8.XXXX); trap 'rm -rf $D' EXIT; cd $D
$E init >/dev/null 2>&1
echo hi > r.txt
T=$(echo '{"title":"t"}' | $E new task 2>/dev/null)
echo '{"result_path":"r.txt","result_summary":"s"}' | $E set $T >/dev/null 2>&1
bad=0
url=$($E --dir . --json show $T 2>/dev/null | grep -o '"file_url":"[^"]*"')
case "$url" in *'file:///'*) ;; *) echo "relative file_url with --dir .: $url"; bad=1;; esac
mkdir -p sub/deeper; cd sub/deeper
if ! $E --dir . --json list >/dev/null 2>&1; then echo "--dir . from a sub-directory does not find the enclosing .ergo"; bad=1; fi
exit $bad
