#!/bin/bash
# F2 (C14): a plain root task is accepted as the parent "epic" of a new task; set {"epic": <unknown id>} is accepted.
# usage: F2_parent_not_epic.sh <ergo binary>; exit 1 if the defect reproduces (the store holds a task whose epic is not a live epic)
E="$1"; D=$(mktemp -d /dev/shm/f2.XXXX); trap 'rm -rf $D' EXIT; cd $D
$E init >/dev/null 2>&1
T=$(echo '{"title":"plain task"}' | $E new task 2>/dev/null)
C=$(echo "{\"title\":\"child\",\"epic\":\"$T\"}" | $E new task 2>/dev/null); rc=$?
bad=0
if [ $rc -eq 0 ] && [ -n "$C" ]; then echo "new task with epic=<task id $T> accepted: created $C"; bad=1; fi
U=$(echo '{"title":"other"}' | $E new task 2>/dev/null)
if echo '{"epic":"ZZZZZZ"}' | $E set $U >/dev/null 2>&1; then echo "set epic=ZZZZZZ (unknown id) accepted on $U"; bad=1; fi
exit $bad
