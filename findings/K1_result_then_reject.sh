#!/bin/bash
# K1 (C10/C02): set with a result attachment plus an illegal state exits non-zero but keeps the result.
# exit 1 if the defect reproduces.
E="$1"; D=$(mktemp -d /dev/shm/k1.XXXX); trap 'rm -rf $D' EXIT; cd $D
$E init >/dev/null 2>&1
echo hello > out.txt
T=$(echo '{"title":"t"}' | $E new task 2>/dev/null)
echo '{"state":"done"}' | $E set $T >/dev/null 2>&1
before=$($E --json show $T 2>/dev/null)
if echo '{"result_path":"out.txt","result_summary":"s","state":"doing"}' | $E set $T >/dev/null 2>&1; then echo "unexpected success"; exit 0; fi
after=$($E --json show $T 2>/dev/null)
if [ "$before" != "$after" ]; then echo "set failed (done -> doing is illegal) but the store changed: a result is attached"; exit 1; fi
exit 0
