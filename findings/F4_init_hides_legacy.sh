#!/bin/bash
# F4 (C18/C02): init on a store that holds only the legacy events.jsonl creates an empty plans.jsonl beside it; every
# command then reads the empty file and all items are hidden. exit 1 if the defect reproduces.
E="$1"; D=$(mktemp -d /dev/shm/f4.XXXX); trap 'rm -rf $D' EXIT; cd $D
$E init >/dev/null 2>&1
echo '{"title":"kept"}' | $E new task >/dev/null 2>&1
mv .ergo/plans.jsonl .ergo/events.jsonl
before=$($E --json list --all 2>/dev/null)
$E init >/dev/null 2>&1
after=$($E --json list --all 2>/dev/null)
if [ "$before" != "$after" ]; then echo "init on a legacy store changed what list shows: before=$before after=$after"; exit 1; fi
exit 0
