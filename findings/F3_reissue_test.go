package ergo

// Demonstration for F3 (C09/C11/C16): a pruned id is issued again and the new item is swallowed by replay.
// Run in-package with: go test -overlay <ov.json> -vet=off -run TestVerifF3 ./internal/ergo
// Fails on the tree before the "fix: never reissue a pruned id" commit, passes after it.

import (
	"bytes"
	"crypto/rand"
	"os"
	"path/filepath"
	"testing"
)

type verifFixedReader struct{ data []byte }

func (r *verifFixedReader) Read(p []byte) (int, error) {
	for i := range p {
		p[i] = r.data[0]
		r.data = append(r.data[1:], r.data[0]+1)
	}
	return len(p), nil
}

func TestVerifF3ReissuedPrunedID(t *testing.T) {
	dir := t.TempDir()
	ergo := filepath.Join(dir, ".ergo")
	if err := os.MkdirAll(ergo, 0755); err != nil {
		t.Fatal(err)
	}
	saved := rand.Reader
	defer func() { rand.Reader = saved }()
	stream := func() { rand.Reader = &verifFixedReader{data: bytes.Repeat([]byte{7, 9, 11, 13}, 8)} }
	opts := GlobalOptions{StartDir: dir, AgentID: "a"}
	stream()
	first, err := createTask(ergo, opts, "", false, "first", "")
	if err != nil {
		t.Fatal(err)
	}
	if err := applySetUpdates(ergo, opts, first.ID, map[string]string{"state": "done"}, "a", true); err != nil {
		t.Fatal(err)
	}
	if _, err := RunPruneApply(ergo, opts); err != nil {
		t.Fatal(err)
	}
	stream() // the random source produces the same bytes again
	second, err := createTask(ergo, opts, "", false, "second", "")
	if err != nil {
		t.Fatal(err)
	}
	graph, err := loadGraph(ergo)
	if err != nil {
		t.Fatal(err)
	}
	if _, ok := graph.Tasks[second.ID]; !ok {
		t.Fatalf("VIOLATED C09: create reported id %s (pruned id %s reissued); the new task does not exist after replay", second.ID, first.ID)
	}
}
