#!/bin/bash
# K3 (C10/C02/C16): new task {"state":"error"} without a claimant exits non-zero but leaves the task behind.
E="$1"; D=$(mktemp -d /dev/shm/k3.XXXX); trap 'rm -rf $D' EXIT; cd $D
$E init >/dev/null 2>&1
before=$($E --json list --all 2>/dev/null)
if echo '{"title":"t","state":"error"}' | $E new task >/dev/null 2>&1; then echo "unexpected success"; exit 0; fi
after=$($E --json list --all 2>/dev/null)
if [ "$before" != "$after" ]; then echo "new task failed (state=error needs a claim) but a task was created"; exit 1; fi
exit 0
