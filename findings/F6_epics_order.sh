#!/bin/bash
# F6 (C12): `list --json --epics` is not a function of the log when epics share created_at (no tie-break, unstable sort over a map walk).
# exit 1 if two runs over the same log print different bytes.
E="$1"; D=$(mktemp -d /dev/shm/f6.XXXX); trap 'rm -rf $D' EXIT; cd $D
mkdir .ergo; : > .ergo/lock
for i in $(seq 1 24); do id=$(printf 'EP%04d' $i); echo "{\"type\":\"new_epic\",\"ts\":\"2026-01-01T00:00:00Z\",\"data\":{\"id\":\"$id\",\"uuid\":\"u$i\",\"epic_id\":\"\",\"state\":\"todo\",\"title\":\"e$i\",\"body\":\"\",\"created_at\":\"2026-01-01T00:00:00Z\"}}"; done > .ergo/plans.jsonl
first=$($E --json list --epics 2>/dev/null | md5sum)
for r in $(seq 1 30); do
  cur=$($E --json list --epics 2>/dev/null | md5sum)
  if [ "$cur" != "$first" ]; then echo "same log, different output on run $r"; exit 1; fi
done
exit 0
