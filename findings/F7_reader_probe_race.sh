#!/bin/bash
# F7 (C13): readEvents decides "the file ends in a newline" with a probe taken BEFORE it scans the file. If a
# writer's (partial) line lands between the probe and the scan, the lock-free reader sees an unparsable last
# line, believes it is complete, and fails - although the store is fine.
# The schedule is forced by delaying the reader right after its pread64 probe (strace fault injection).
# Usage: F7_reader_probe_race.sh <ergo-binary>; exit 1 if the defect reproduces.
E="$1"; D=$(mktemp -d /dev/shm/f7.XXXX); trap 'rm -rf $D' EXIT; cd $D
$E init >/dev/null 2>&1
echo '{"title":"t1"}' | $E new task >/dev/null 2>&1
L="$D/.ergo/plans.jsonl"
( strace -f -o /dev/null -P "$L" -e trace=pread64,fstat,newfstatat,statx -e inject=pread64:delay_exit=1500000 $E list --json --all >"$D/out" 2>"$D/err"; echo $? >"$D/rc" ) &
sleep 0.6
# a writer in the middle of its line (what a concurrent append looks like to a reader, byte-wise)
printf '{"type":"state","ts":"2026-01-01T00:00:00Z","data":{"id":"X' >> "$L"
wait
rc=$(cat "$D/rc")
if [ "$rc" != "0" ]; then echo "reader failed while a writer was mid-line: $(head -c 200 $D/err)"; exit 1; fi
exit 0
