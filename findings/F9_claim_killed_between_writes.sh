#!/bin/bash
# F9 (C04): `claim` records two events (claim, state). Before the fix each went out in its own write(2); a
# process killed between them left the task claimed but still todo - neither the state before nor after.
# Usage: F9_claim_killed_between_writes.sh <ergo-binary>; exit 1 if the defect reproduces.
E="$1"; D=$(mktemp -d /dev/shm/f9.XXXX); trap 'rm -rf $D' EXIT; cd $D
$E init >/dev/null 2>&1
echo '{"title":"t1"}' | $E new task >/dev/null 2>&1
before=$($E list --json --all 2>/dev/null)
bad=0
for w in 1 2 3; do
  strace -f -o /dev/null -P "$D/.ergo/plans.jsonl" -e trace=write -e inject=write:signal=SIGKILL:when=$w $E claim --agent a1 >/dev/null 2>&1
  now=$($E list --json --all 2>/dev/null)
  if [ "$now" = "$before" ]; then continue; fi
  if echo "$now" | grep -q '"state":"doing","claimed_by":"a1"'; then break; fi
  echo "killed at write #$w of the log: state is neither before nor after the command: $now"; bad=1; break
done
exit $bad
