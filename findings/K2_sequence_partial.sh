#!/bin/bash
# K2 (C10/C02): sequence A B X with unknown X exits non-zero but keeps the edge B->A.
E="$1"; D=$(mktemp -d /dev/shm/k2.XXXX); trap 'rm -rf $D' EXIT; cd $D
$E init >/dev/null 2>&1
A=$(echo '{"title":"a"}' | $E new task 2>/dev/null)
B=$(echo '{"title":"b"}' | $E new task 2>/dev/null)
before=$($E --json show $B 2>/dev/null)
if $E sequence $A $B ZZZZZZ >/dev/null 2>&1; then echo "unexpected success"; exit 0; fi
after=$($E --json show $B 2>/dev/null)
if [ "$before" != "$after" ]; then echo "sequence failed but $B now depends on $A"; exit 1; fi
exit 0
