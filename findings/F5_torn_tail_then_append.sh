#!/bin/bash
# F5 (C03): a write cut short leaves a partial last line. Readers tolerate it, but the next append (O_APPEND,
# no look at the existing tail) glues its own line onto the fragment: the fragment becomes an unparsable line in
# the MIDDLE of the log and every later command fails until the file is repaired by hand.
# Usage: F5_torn_tail_then_append.sh <ergo-binary>; exit 1 if the defect reproduces.
E="$1"; D=$(mktemp -d /dev/shm/f5.XXXX); trap 'rm -rf $D' EXIT; cd $D
$E init >/dev/null 2>&1
echo '{"title":"t1"}' | $E new task >/dev/null 2>&1
L="$D/.ergo/plans.jsonl"
printf '{"type":"state","ts":"2026-01-01T00:00:00Z","data":{"id":"X' >> "$L"      # the torn write of a crashed command
$E list --json --all >/dev/null 2>&1 || { echo "reader does not tolerate the torn tail itself"; exit 1; }
echo '{"title":"t2"}' | $E new task >/dev/null 2>&1 || { echo "append after torn tail rejected (store not writable)"; exit 1; }
if ! $E list --json --all >/dev/null 2>"$D/err"; then echo "store bricked after crash + one successful command: $(head -c 160 $D/err)"; exit 1; fi
exit 0
